#!/usr/bin/env python3
# usage: replay.py <replay-file.json>
# Re-runs the Go test stored in a replay file against /repo's working tree (injected with -overlay; nothing is
# written to /repo). Exit 1 when the real code misbehaves again (the line REPRODUCED is printed by the test),
# exit 0 when it does not, exit 2 when the file carries no test (the obligation and the solver's answer are shown).
import json, os, subprocess, sys, tempfile
d = json.load(open(sys.argv[1]))
print("obligation:", d.get("obligation"), "| kind:", d.get("kind"), "| solver:", d.get("solver_status"))
print("clause:", d.get("clause"))
src = d.get("replay_test_source")
if not src:
    print("no replay test in this file (the solver gave no model, or the model has no entry-state form): no-failing-input-found")
    print((d.get("solver_output") or "")[:2000])
    sys.exit(2)
tmp = tempfile.mkdtemp(prefix="govc-replay-")
try:
    t = os.path.join(tmp, "zz_verif_replay_test.go")
    open(t, "w").write(src)
    ov = os.path.join(tmp, "ov.json")
    rep = {"/repo/zz_verif_replay_test.go": t}
    if d.get("generated_spec_functions"):
        g = os.path.join(tmp, "zz_vc_generated.go")
        open(g, "w").write(d["generated_spec_functions"])
        rep["/repo/zz_vc_generated.go"] = g
    json.dump({"Replace": rep}, open(ov, "w"))
    env = dict(os.environ, GOFLAGS="-mod=mod", GOPROXY="off", GOSUMDB="off", GOTOOLCHAIN="local")
    p = subprocess.run(["go", "test", "-tags", "verif", "-overlay", ov, "-vet=off", "-count=1", "-timeout", "60s",
                        "-run", "^TestVerifReplay$", "-v", "."], cwd="/repo", env=env, capture_output=True, text=True)
    out = p.stdout + p.stderr
    print(out[-4000:])
    sys.exit(1 if "REPRODUCED" in out else 0)
finally:
    subprocess.run(["rm", "-rf", tmp])
