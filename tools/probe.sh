#!/bin/bash
# usage: probe.sh <test-file.go> [repo]   -- runs an in-package test file against the repo via -overlay (nothing written to the repo)
set -e
T=$(readlink -f "$1"); R=${2:-/repo}
D=$(mktemp -d); trap 'rm -rf $D' EXIT
echo "{\"Replace\":{\"$R/zz_probe_test.go\":\"$T\"}}" > $D/ov.json
cd $R && GOFLAGS=-mod=mod GOPROXY=off GOSUMDB=off GOTOOLCHAIN=local go test -overlay $D/ov.json -vet=off -count=1 -timeout 60s -run '^TestProbe' -v . 2>&1 | tail -${PROBE_TAIL:-30}
