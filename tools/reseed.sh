#!/bin/bash
# usage: reseed.sh  -- re-applies every seeded change to /repo in turn, runs the property's check, expects exit 1, reverts
cd /verif
if [ -n "$(git -C /repo status --porcelain)" ]; then echo "reseed: /repo has uncommitted changes"; exit 3; fi
for d in seeded/*/; do
  n=$(basename $d); p=${n%%-*}
  if ! git -C /repo apply --check /verif/$d/patch.diff 2>/dev/null; then echo "$n: patch no longer applies (code changed since)"; continue; fi
  git -C /repo apply /verif/$d/patch.diff
  ./check $p > /tmp/reseed_$n.log 2>&1; rc=$?
  git -C /repo checkout -- .
  echo "$n: check exit=$rc violations=$(grep -c '^VIOLATION' /tmp/reseed_$n.log)"
done
