#!/usr/bin/env python3
import json,sys
d=json.load(open(sys.argv[1]))
print("OBL",d['obligation'],d['solver_status'],d['position']); print("CLAUSE",d['clause']); print("NOTE",d['note'])
m=d.get('model') or {}
def val(v):
    if v.startswith('#x'): return int(v[2:],16)
    if v.startswith('#b'): return int(v[2:],2)
    return v
for k in sorted(m):
    if k.startswith('heap:'): continue
    v=val(m[k])
    if isinstance(v,int) and v>=2**63: v=v-2**64
    print("  %-40s %s"%(k,v))
hb={}
for k in m:
    if k.startswith('heap:0:') or k.startswith('heap:1:'):
        p=k.split(':'); hb.setdefault(int(p[1]),{})[int(p[2])]=val(m[k])
for p in hb:
    b=hb[p]
    if len(b)<300: print("  heap param",p, bytes([b[i]&255 for i in sorted(b)]) if all(isinstance(b[i],int) for i in b) else b)
if len(sys.argv)>2: print(d.get('replay_test_output','')[:1500])
