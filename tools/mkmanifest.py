#!/usr/bin/env python3
# Regenerates /verif/MANIFEST.json from the table below (claims) and properties.jsonl.
import json,subprocess
claims = {
 "C04": ("proof","Safety obligations generated with zero annotation (index, slice, nil, division, panic-unreachable incl. PField.Set/Extend, frame of every store, callee preconditions, loop variants) for every function under contract, discharged for all inputs by z3/cvc5; plus the package-level no-global-write scan.",
         "Functions not yet under contract are listed in the evidence (coverage.functions_not_under_contract); nothing is claimed about them. Isolation rests on the frame obligations (writes only inside the declared modifies set) and the global-write scan, not on exploring schedules.",
         "contract-based deductive verification: generated safety VCs over go/ssa (bit-vector exact), SMT"),
 "C10": ("proof","Every accumulation step is proved exact against the saturating decimal spec satdec: CSeq, Content-Length, Expires header, Contact expires (saturating at 2^32-1), via loop invariants acc == satdec(digits so far).",
         "satdec is an uninterpreted specification function whose two unfolding equations are axioms (trusted); q parameter, status code and URI port are covered by C08/C14 clauses when those functions are under contract (see evidence).",
         "contract-based deductive verification: loop invariants against a recursive spec function, SMT (QF_ABV + instantiated axioms)"),
 "C18": ("proof","AdjustOffs/Long/Short/Truncate are straight-line 16-bit code: postconditions (moved-by-constant, refused-unchanged, fits-iff-ok, view ends) are proved for all well-formed parsed URIs, all target offsets and span lengths, case-split over the 64 presence patterns of the components.",
         "Precondition uriOK (component order as produced by ParseURI) is assumed here and is the C14 postcondition; Offs+Len <= 65535.",
         "contract-based deductive verification: unary postconditions on straight-line bit-vector code, SMT"),
}
props=[json.loads(l) for l in open('/verif/properties.jsonl')]
checks=[]; na=[]
reasons = json.load(open('/verif/tools/not_applicable.json'))
for p in props:
    i=p['id']
    if i in claims:
        cat,text,note,tech=claims[i]
        checks.append({"property_id":i,"quick_cmd":"./check %s --tier quick"%i,"thorough_cmd":"./check %s --tier thorough"%i,
          "evidence_file":"/verif/evidence/%s.json"%i,"replay_cmd_template":"./check %s --replay {path}"%i,"engine":"govc",
          "level_claimed":{"category":cat,"text":text,"design_ref":"DESIGN.md section 6 (%s)"%i},"level_note":note,"technique":tech})
    else:
        na.append({"property_id":i,"reason":reasons.get(i,"no obligation for this property discharges yet; see DESIGN.md")})
hooks=subprocess.run(['git','-C','/repo','log','--format=%h %s'],capture_output=True,text=True).stdout.strip().split('\n')
hook_commits=[l.split()[0] for l in hooks if 'verif hooks' in l]
m={"version":1,
 "setup_cmd":"cd /verif/engine && GOFLAGS=-mod=vendor GOPROXY=off GOSUMDB=off GOTOOLCHAIN=local CGO_ENABLED=0 go build -o govc .",
 "hooks":{"guard":"verif","enable":"files verif_contracts.go, verif_specs.go, verif_sep.go carry //go:build verif; the engine loads /repo with -tags=verif","baseline_off_cmd":"cd /repo && go test -json -vet=off -count=1 -timeout 25m ./...","source_commits":hook_commits,"add_only":True},
 "engines":[{"name":"govc","path":"/verif/engine","serves_properties":sorted(claims.keys()),"kind_free_text":"weakest-precondition style VC generator over naive-form go/ssa (x/tools v0.29.0, vendored) with //@ contracts kept in /repo/verif_contracts.go; obligations discharged by z3 5.1.0 / cvc5 1.0.3 / z3 4.8.12; models replayed on the real code with go test -overlay"}],
 "checks":checks,
 "notes":"One check per claimed property: ./check <id>. Exit 0 = every obligation generated from /repo's working tree discharged (known findings excepted); exit 1 + VIOLATION lines otherwise; exit 2 = engine error (no verdict).",
 "not_applicable":na}
json.dump(m,open('/verif/MANIFEST.json','w'),indent=1)
print("claims:",sorted(claims.keys()),"n/a:",[x['property_id'] for x in na])
