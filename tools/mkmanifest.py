#!/usr/bin/env python3
# Regenerates /verif/MANIFEST.json from the table below (claims) and properties.jsonl.
import json,subprocess
claims = {
 "C04": ("proof","Safety obligations generated with zero annotation (index, slice, nil, division, panic-unreachable incl. PField.Set/Extend, frame of every store, callee preconditions, loop variants) for every function under contract, discharged for all inputs by z3/cvc5; plus the package-level no-global-write scan.",
         "Functions not yet under contract are listed in the evidence (coverage.functions_not_under_contract); nothing is claimed about them. Isolation rests on the frame obligations (writes only inside the declared modifies set) and the global-write scan, not on exploring schedules.",
         "contract-based deductive verification: generated safety VCs over go/ssa (bit-vector exact), SMT"),
 "C10": ("proof","Every accumulation step is proved exact against the saturating decimal spec satdec: CSeq, Content-Length, Expires header, Contact expires (saturating at 2^32-1), via loop invariants acc == satdec(digits so far).",
         "satdec is an uninterpreted specification function whose two unfolding equations are axioms (trusted); the URI port is proved exact in ParseURI (invariant portNo == min(satdec(digits), 65536), postcondition PortNo == satdec(Port digits), 0 without a port); the reply status is the C08 clause; the q parameter goes through pUInt64Val (saturating, flagged).",
         "contract-based deductive verification: loop invariants against a recursive spec function, SMT (QF_ABV + instantiated axioms)"),
 "C02": ("proof","Law RES (resumed == one-shot, DESIGN.md 4.3) is proved, for all buffers, offsets, suspended states and all pairs of lengths L1 <= L2, for the streaming parsers that carry a 'law RES' clause: skipCRLF, skipLWS, skipLine, skipWS/skipToken/skipTokenDelim (scanner form), ParseCSeqVal, ParseUIntVal (and through it ParseExpiresVal), ParseCallIDVal and ParseNameAddrPVal (and through it ParseFromVal, ParseOneContact). Obligations: the suspended state satisfies the precondition of the resumed call, and the resumed and the one-shot run meet within one loop iteration; callee laws are used as hypotheses at matching call sites.",
         "PARTIAL: not yet proved for ParseFLine (RES does not discharge in budget), ParseCLenVal, ParseHdrLine, ParseHeaders, ParseOnePAI, the list wrappers, ParseTokenParam, ParseAllURIParams/Hdrs, SkipQuoted (see evidence for the exact list). The induction from per-iteration obligations to whole runs and from one resume to every chunk schedule is a paper argument (DESIGN.md 4.7). For ParseNameAddrPVal the internal saved offset (soffs) is not compared after an error verdict and inside the loop, after a mechanical check that the loop never reads it.",
         "contract-based deductive verification: relational law by two/three-fold instantiation of per-fragment transition formulas (substitution), callee summaries as uninterpreted functions, SMT"),
 "C03": ("proof","Law EXT (a verdict other than more-bytes never changes when bytes are appended, DESIGN.md 4.2) is proved for the same functions plus ParseFLine and setFromParamVal, with the documented exemption (POptInputEndF) as a precondition of skipLWS's law: per fragment, a definitive return on the short buffer implies the same return and the same object on the long one, and while the short run continues both runs are in the same configuration.",
         "PARTIAL: the message parser, header line / header block parsers, the list wrappers and the token-parameter parsers are not yet covered (see evidence). Lock-step induction over iterations is a paper argument (DESIGN.md 4.7).",
         "contract-based deductive verification: relational law by substitution in per-fragment transition formulas, SMT"),
 "C08": ("proof","ParseFLine has no loop of its own: the exact decomposition of a request line (three tokens separated by single spaces, terminator, method number == table spec) and of a status line (case-insensitive SIP/2.0, three digits, status arithmetic, reason up to the terminator, never a request) are postconditions proved for every buffer and every entry state, over the verified contracts of skipToken/skipLine/skipCRLF/bytescase.Prefix/GetMethodNo.",
         "Stated for a call that starts the line (state flInit on a zeroed PFLine); resumed calls are carried by the RES/EXT laws (C02/C03) when those are claimed.",
         "contract-based deductive verification: unary postconditions, 8-way case split on the parser state, SMT"),
 "C12": ("proof","Every Reset/Init has the postcondition 'all cells equal those of a newly created object, the caller's arrays kept with all elements zeroed'; for the list objects this uses the representation invariant 'elements beyond the one in progress are zero' and a loop invariant over the clearing loop. No precondition on how the object was used before.",
         "PSIPMsg.Reset/Init and PHdrVals.Reset/Init are covered only through the contracts of their parts when not yet under contract themselves (see evidence: functions_not_under_contract). 'Behaves like a new object' follows from equal cells plus determinism of the parsers (no hidden state: global-write scan).",
         "contract-based deductive verification: postconditions with quantified array facts, SMT"),
 "C16": ("proof","GetHdrType/GetMethodNo are proved equal to the table specification for every name: result == type of the unique case-insensitively (resp. exactly) equal table entry, else other. The lookup tables are taken from the real program after its init (dumped on every run) and the proof is split into one case per hash bucket.",
         "A-INIT: the dumped tables are the tables (init executed for real on every run; global-write scan shows nothing writes them later). 'The header parser assigns this classification' is the ParseHdrLine clause of C07.",
         "contract-based deductive verification: loop invariants over concrete tables, 65/33-way case split, SMT"),
 "C20": ("proof","IP4Prefix is proved to accept exactly the dotted-quad grammar (ok <==> ip4At), to stop at the specified end, to report what follows (end / digit / other) and to decode the four bytes exactly; ContainsIP4 is proved sound (the reported span is a dotted quad starting at o with the specified end).",
         "Completeness of ContainsIP4 (no address anywhere ==> not found) is NOT proved: the quantified argument did not discharge; the evidence says so. dst must not share the backing array of buf.",
         "contract-based deductive verification: 16-case loop invariant against a quantifier-free grammar spec, SMT"),
 "C14": ("proof","ParseURI (one loop, 18 automaton states) carries a per-state loop invariant; the postcondition of an accepted URI is the lossless ordered decomposition: scheme = uri[0:e0) is sip:/sips:/tel: in any letter case with a real ':', user[:pass]@ chained from e0, host (non-empty) chained after it, :port ;params ?headers each starting right after its delimiter byte, the last component ending at len(uri) == returned offset; a host that starts with '[' ends with ']'; no '@' at or after the host; tel: number in User with Host empty; error offsets inside the input. Proved for every byte string up to 65535 bytes.",
         "Precondition: the PsipURI passed in is zeroed (new or Reset; ParseURI does not clear it). A '@' directly after the scheme (sip:@h) is taken as the first host byte by the code; the no-'@' clause therefore starts one byte after the scheme. For tel: URIs with a user part (tel:a@b) only 'number in User, Host empty, rest chained' is stated. The per-state invariant is long; 36 case runs (state x next byte is '@').",
         "contract-based deductive verification: loop invariant indexed by automaton state, quantified facts by skolemisation/instantiation, SMT (QF_ABV)"),
 "C18": ("proof","AdjustOffs/Long/Short/Truncate are straight-line 16-bit code: postconditions (moved-by-constant, refused-unchanged, fits-iff-ok, view ends) are proved for all well-formed parsed URIs, all target offsets and span lengths, case-split over the 64 presence patterns of the components.",
         "Precondition uriOK (component order as produced by ParseURI) is assumed here and is the C14 postcondition; Offs+Len <= 65535.",
         "contract-based deductive verification: unary postconditions on straight-line bit-vector code, SMT"),
}
props=[json.loads(l) for l in open('/verif/properties.jsonl')]
checks=[]; na=[]
reasons = json.load(open('/verif/tools/not_applicable.json'))
for p in props:
    i=p['id']
    if i in claims:
        cat,text,note,tech=claims[i]
        checks.append({"property_id":i,"quick_cmd":"./check %s --tier quick"%i,"thorough_cmd":"./check %s --tier thorough"%i,
          "evidence_file":"/verif/evidence/%s.json"%i,"replay_cmd_template":"./check %s --replay {path}"%i,"engine":"govc",
          "level_claimed":{"category":cat,"text":text,"design_ref":"DESIGN.md section 6 (%s)"%i},"level_note":note,"technique":tech})
    else:
        na.append({"property_id":i,"reason":reasons.get(i,"no obligation for this property discharges yet; see DESIGN.md")})
hooks=subprocess.run(['git','-C','/repo','log','--format=%h %s'],capture_output=True,text=True).stdout.strip().split('\n')
hook_commits=[l.split()[0] for l in hooks if 'verif hooks' in l]
m={"version":1,
 "setup_cmd":"cd /verif/engine && GOFLAGS=-mod=vendor GOPROXY=off GOSUMDB=off GOTOOLCHAIN=local CGO_ENABLED=0 go build -o govc .",
 "hooks":{"guard":"verif","enable":"files verif_contracts.go, verif_specs.go, verif_sep.go carry //go:build verif; the engine loads /repo with -tags=verif","baseline_off_cmd":"cd /repo && go test -json -vet=off -count=1 -timeout 25m ./...","source_commits":hook_commits,"add_only":True},
 "engines":[{"name":"govc","path":"/verif/engine","serves_properties":sorted(claims.keys()),"kind_free_text":"weakest-precondition style VC generator over naive-form go/ssa (x/tools v0.29.0, vendored) with //@ contracts kept in /repo/verif_contracts.go; obligations discharged by z3 5.1.0 / cvc5 1.0.3 / z3 4.8.12; models replayed on the real code with go test -overlay"}],
 "checks":checks,
 "notes":"One check per claimed property: ./check <id>. Exit 0 = every obligation generated from /repo's working tree discharged (known findings excepted); exit 1 + VIOLATION lines otherwise; exit 2 = engine error (no verdict).",
 "not_applicable":na}
json.dump(m,open('/verif/MANIFEST.json','w'),indent=1)
print("claims:",sorted(claims.keys()),"n/a:",[x['property_id'] for x in na])
