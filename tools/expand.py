#!/usr/bin/env python3
# usage: expand.py file.smt2 name [depth]  -- prints the definition of a hoisted term with sub-definitions inlined to a depth
import sys,re
f,name=sys.argv[1],sys.argv[2]; depth=int(sys.argv[3]) if len(sys.argv)>3 else 3
defs={}
for l in open(f):
    m=re.match(r'\(define-fun (\|?[^ ]+\|?) \(\) [^ ]+( \([^)]*\))? (.*)\)$',l.rstrip())
    if m: defs[m.group(1)]=m.group(3)
def ex(s,d):
    if d==0: return s
    return re.sub(r't![0-9]+',lambda m: '['+ex(defs.get(m.group(0),m.group(0)),d-1)+']' if m.group(0) in defs else m.group(0),s)
print(ex(defs.get(name,name),depth))
