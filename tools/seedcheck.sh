#!/bin/bash
# usage: seedcheck.sh <seed-name> <property> <worktree>   (worktree has patch.diff and demo_test.go.txt)
set -u
NAME=$1; PROP=$2; WT=$3
export GOFLAGS=-mod=mod GOPROXY=off GOSUMDB=off GOTOOLCHAIN=local
if [ -n "$(git -C /repo status --porcelain)" ]; then echo "seedcheck: /repo has uncommitted changes; commit them first"; exit 3; fi
D=/verif/seeded/$NAME; mkdir -p $D
cp $WT/patch.diff $D/patch.diff; cp $WT/demo_test.go.txt $D/demo_test.go.txt
# confirm in a clean scratch worktree
S=$(mktemp -d /tmp/seedchk.XXXX); git -C /repo worktree add -f $S HEAD >/dev/null 2>&1
cd $S
cp $D/demo_test.go.txt seed_demo_test.go
go test -vet=off -count=1 -timeout 120s -run TestSeedDemo . > $D/demo_unpatched.log 2>&1; U=$?
git apply $D/patch.diff; A=$?
go test -vet=off -count=1 -timeout 120s -run TestSeedDemo . > $D/demo_patched.log 2>&1; P=$?
rm seed_demo_test.go
go test -vet=off -count=1 -timeout 300s ./... > $D/suite_patched.log 2>&1; T=$?
cd /; git -C /repo worktree remove --force $S
echo "apply=$A demo_unpatched_exit=$U (want 0) demo_patched_exit=$P (want !=0) suite_patched_exit=$T (want 0)"
# run our check against the patched /repo
git -C /repo apply $D/patch.diff && (cd /verif && ./check $PROP > $D/check_patched.log 2>&1; echo "check exit=$?"; grep -c "^VIOLATION" $D/check_patched.log; grep "^VIOLATION" $D/check_patched.log | head -3 | cut -c1-300)
git -C /repo checkout -- .
echo "{\"property\":\"$PROP\",\"apply\":$A,\"demo_unpatched_exit\":$U,\"demo_patched_exit\":$P,\"suite_patched_exit\":$T}" > $D/confirm.json
