package main

// Calls (builtins, intrinsics, contracts, inlining), loop heads and the
// top-level per-function verification driver.

import (
	"fmt"
	"os"
	"go/token"
	"go/types"
	"strings"

	"golang.org/x/tools/go/ssa"
)

func (x *Exec) call(fr *Frame, st *State, i *ssa.Call) Val {
	cc := i.Call
	var args []Val
	for _, a := range cc.Args {
		args = append(args, x.value(fr, st, a))
	}
	if cc.IsInvoke() {
		return x.invoke(fr, st, i, args)
	}
	switch f := cc.Value.(type) {
	case *ssa.Builtin:
		return x.builtin(fr, st, i, f, args)
	case *ssa.Function:
		return x.callFn(st, f, nil, args, i.Pos(), i.Type())
	default:
		fv := x.value(fr, st, cc.Value)
		if fv.Fn == nil {
			// maybe loaded from a local cell holding a closure
			if ld, ok := cc.Value.(*ssa.UnOp); ok && ld.Op == token.MUL {
				pv := x.value(fr, st, ld.X)
				if pv.C[0].Op == "const" {
					if cl, ok := x.fnCells[int(pv.C[0].U64())]; ok {
						return x.callFn(st, cl.Fn, cl.Bind, args, i.Pos(), i.Type())
					}
				}
			}
			x.fail("dynamic call through unknown function value %s", cc.Value)
		}
		return x.callFn(st, fv.Fn.Fn, fv.Fn.Bind, args, i.Pos(), i.Type())
	}
}

func (x *Exec) builtin(fr *Frame, st *State, i *ssa.Call, b *ssa.Builtin, args []Val) Val {
	switch b.Name() {
	case "len":
		t := i.Call.Args[0].Type().Underlying()
		switch u := t.(type) {
		case *types.Slice:
			return Val{C: []*Term{args[0].C[2]}}
		case *types.Basic:
			return Val{C: []*Term{args[0].C[2]}}
		case *types.Pointer:
			return Val{C: []*Term{BV(u.Elem().Underlying().(*types.Array).Len(), 64)}}
		case *types.Array:
			return Val{C: []*Term{BV(u.Len(), 64)}}
		}
	case "cap":
		t := i.Call.Args[0].Type().Underlying()
		switch u := t.(type) {
		case *types.Slice:
			return Val{C: []*Term{args[0].C[3]}}
		case *types.Pointer:
			return Val{C: []*Term{BV(u.Elem().Underlying().(*types.Array).Len(), 64)}}
		}
	case "ssa:deferstack":
		return Val{C: []*Term{BV(0, 32), BV(0, 64)}}
	case "copy":
		return x.copyBuiltin(st, i, args)
	case "min", "max":
		t := i.Type()
		if isInteger(t) && len(args) == 2 {
			a, c := args[0].C[0], args[1].C[0]
			var lt *Term
			if isSigned(t) {
				lt = SLT(a, c)
			} else {
				lt = ULT(a, c)
			}
			if b.Name() == "min" {
				return Val{C: []*Term{Ite(lt, a, c)}}
			}
			return Val{C: []*Term{Ite(lt, c, a)}}
		}
	}
	x.fail("unsupported builtin %s", b.Name())
	return Val{}
}

// copy(dst, src) for small constant-length sources (ip[:] of a [4]byte) and byte slices:
// modelled exactly when the source length is a constant <= 16, otherwise unsupported.
func (x *Exec) copyBuiltin(st *State, i *ssa.Call, args []Val) Val {
	dst, src := args[0], args[1]
	dl, sl := dst.C[2], src.C[2]
	var n int
	switch {
	case sl.Op == "const" && sl.U64() <= 16:
		n = int(sl.U64())
	case src.C[3].Op == "const" && src.C[3].U64() <= 16:
		// symbolic length, but at most a small constant capacity (a slice of a small array)
		n = int(src.C[3].U64())
	default:
		x.fail("copy with non-constant source length")
	}
	elemT := i.Call.Args[0].Type().Underlying().(*types.Slice).Elem()
	es := sizeOf(elemT)
	stride := strideOf(elemT)
	emo := memOffsOf(elemT)
	ss := cellsOf(elemT)
	// number copied = min(dl, n)
	cnt := Ite(ULT(dl, sl), dl, sl)
	for k := 0; k < n; k++ {
		cond := And(ULT(BV(int64(k), 64), dl), ULT(BV(int64(k), 64), sl))
		for c := 0; c < es; c++ {
			so := BVAdd(src.C[1], BV(int64(k*stride+emo[c]), 64))
			do := BVAdd(dst.C[1], BV(int64(k*stride+emo[c]), 64))
			h := x.heapOf(st, ss[c])
			sv := Select(Select(h, src.C[0]), so)
			old := Select(Select(h, dst.C[0]), do)
			// frame: only when actually written
			sg := st.G
			st.G = And(sg, cond)
			x.frameCheck(st, dst.C[0], do, 1, i.Pos())
			st.G = sg
			x.storeHeapCell(st, dst.C[0], do, Ite(cond, sv, old))
		}
	}
	return Val{C: []*Term{cnt}}
}

func (x *Exec) invoke(fr *Frame, st *State, i *ssa.Call, args []Val) Val {
	recv := x.value(fr, st, i.Call.Value)
	// resolve against the concrete types declared for this interface in the contracts
	it := i.Call.Value.Type()
	impls := x.W.ifaceImpls(it)
	if len(impls) != 1 {
		x.fail("invoke on %v: %d known implementations (need exactly 1)", it, len(impls))
	}
	ct := impls[0]
	tid := BV(int64(x.typeID(ct)), 32)
	x.oblige("iface", "iface", []string{"C04"}, i.Pos(), st, Eq(recv.C[0], tid), "interface value is nil or of an unexpected dynamic type")
	ms := x.W.Prog.MethodSets.MethodSet(ct)
	sel := ms.Lookup(i.Call.Method.Pkg(), i.Call.Method.Name())
	if sel == nil {
		x.fail("method %s not found on %v", i.Call.Method.Name(), ct)
	}
	fn := x.W.Prog.MethodValue(sel)
	full := append([]Val{{C: []*Term{recv.C[1], recv.C[2]}}}, args...)
	return x.callFn(st, fn, nil, full, i.Pos(), i.Type())
}

func (w *World) ifaceImpls(it types.Type) []types.Type {
	iface, ok := it.Underlying().(*types.Interface)
	if !ok {
		return nil
	}
	var out []types.Type
	sc := w.Pkg.Scope()
	for _, n := range sc.Names() {
		tn, ok := sc.Lookup(n).(*types.TypeName)
		if !ok {
			continue
		}
		if _, isI := tn.Type().Underlying().(*types.Interface); isI {
			continue
		}
		pt := types.NewPointer(tn.Type())
		if types.Implements(pt, iface) {
			out = append(out, pt)
		}
	}
	return out
}

func (x *Exec) callFn(st *State, fn *ssa.Function, bind []Val, args []Val, pos token.Pos, resT types.Type) Val {
	if x.initMode {
		// package initialisation: other packages' init and the init#k table builders are not executed;
		// the variables the latter write are made unknown afterwards
		if strings.HasPrefix(fn.Name(), "init") || fn.Blocks == nil {
			if resT == nil {
				return Val{}
			}
			return Val{C: x.freshCells("init."+fn.Name(), resT)}
		}
	}
	// synthetic wrappers (bound methods, thunks) are not used in this code base
	pkgPath := ""
	if fn.Pkg != nil {
		pkgPath = fn.Pkg.Pkg.Path()
	}
	if fn.Pkg == x.W.SPkg && fn.Parent() == nil && fn.Signature.Recv() == nil {
		switch fn.Name() {
		case "forall", "exists":
			return x.quantifier(st, fn.Name(), args)
		case "sep":
			return x.sepIntrinsic(st, args)
		case "blockSep":
			ra, rb := x.regionOf(args[0]), x.regionOf(args[1])
			if ra == nil || rb == nil {
				x.fail("blockSep: arguments must be pointers or slices")
			}
			var bs []*Term
			for _, ta := range ra.tagSet() {
				for _, tb := range rb.tagSet() {
					bs = append(bs, Neq(BVAdd(ra.Blk, BV(int64(ta), 32)), BVAdd(rb.Blk, BV(int64(tb), 32))))
				}
			}
			return Val{C: []*Term{And(bs...)}}
		case "sameSlice":
			a, b := args[0], args[1]
			if a.If == nil || b.If == nil || len(a.If.V.C) != 4 || len(b.If.V.C) != 4 {
				x.fail("sameSlice: arguments must be slices")
			}
			return Val{C: []*Term{And(Eq(a.If.V.C[0], b.If.V.C[0]), Eq(a.If.V.C[1], b.If.V.C[1]), Eq(a.If.V.C[2], b.If.V.C[2]), Eq(a.If.V.C[3], b.If.V.C[3]))}}
		case "inRange":
		}
	}
	if strings.HasSuffix(pkgPath, "/slog") {
		return Val{C: x.freshCells("slog", resT)}
	}
	if fi := x.W.ByFn[fn]; fi != nil && fi.C.Uninterp {
		return x.callUninterp(st, fi, args, resT)
	}
	if fi := x.W.ByFn[fn]; fi != nil && !fi.C.Inline {
		return x.callContract(st, fi, args, pos, resT)
	}
	if fn.Blocks == nil {
		x.fail("call to external function %s without contract", fn.String())
	}
	return x.inline(st, fn, bind, args, pos)
}

func (x *Exec) inline(st *State, fn *ssa.Function, bind []Val, args []Val, pos token.Pos) Val {
	if x.depth > 40 {
		x.fail("inlining too deep at %s", fn.Name())
	}
	x.depth++
	defer func() { x.depth-- }()
	fr := &Frame{fn: fn, vals: map[ssa.Value]Val{}, allocs: map[*ssa.Alloc]int{}, args: args, fv: bind}
	pushed := false
	if x.spec == 0 {
		x.inlineStack = append(x.inlineStack, "in:"+fnKey(fn))
		pushed = true
	}
	rets := x.runBody(fr, st.clone())
	if pushed {
		x.inlineStack = x.inlineStack[:len(x.inlineStack)-1]
	}
	if len(rets) == 0 {
		// never returns (always panics): continue with an impossible state
		st.G = False()
		return Val{C: zeroCells(fn.Signature.Results())}
	}
	var ps []predState
	for _, r := range rets {
		ps = append(ps, predState{nil, r.st})
	}
	m := x.mergeStates(ps)
	rgs := make([]*Term, len(rets))
	for k, r := range rets {
		rgs[k] = r.st.G
	}
	_, rrel := stripCommon(rgs)
	v := rets[len(rets)-1].val
	for k := len(rets) - 2; k >= 0; k-- {
		v = mergeVals(rrel[k], rets[k].val, v)
	}
	*st = *m.clone()
	return v
}

// evaluate a generated spec function on the given argument values in state st (spec mode)
func (x *Exec) evalGen(g *GenFunc, st *State, args []Val) Val {
	x.spec++
	defer func() { x.spec-- }()
	s := st.clone()
	s.G = True()
	return x.inline(s, g.Fn, nil, args, token.NoPos)
}

func (x *Exec) quantifier(st *State, kind string, args []Val) Val {
	lo, hi := args[0].C[0], args[1].C[0]
	cl := args[2].Fn
	if cl == nil {
		x.fail("%s: third argument must be a function literal", kind)
	}
	// constant bounds: expand (keeps the formula quantifier-free; used for comparisons with literal strings
	// and for finite tables)
	if lo.Op == "const" && hi.Op == "const" {
		l, h := lo.SInt().Int64(), hi.SInt().Int64()
		if h-l <= 64 {
			var parts []*Term
			x.spec++
			for j := l; j < h; j++ {
				s := st.clone()
				s.G = True()
				parts = append(parts, x.inline(s, cl.Fn, cl.Bind, []Val{{C: []*Term{BV(j, 64)}}}, token.NoPos).C[0])
			}
			x.spec--
			if kind == "forall" {
				return Val{C: []*Term{And(parts...)}}
			}
			return Val{C: []*Term{Or(parts...)}}
		}
	}
	k := Fresh("k", BV64)
	x.spec++
	x.quant++
	s := st.clone()
	s.G = True()
	body := x.inline(s, cl.Fn, cl.Bind, []Val{{C: []*Term{k}}}, token.NoPos).C[0]
	x.quant--
	x.spec--
	rng := And(SLE(lo, k), SLT(k, hi))
	if kind == "forall" {
		return Val{C: []*Term{Forall([]*Term{k}, Implies(rng, body))}}
	}
	return Val{C: []*Term{Exists([]*Term{k}, And(rng, body))}}
}

// sep(a, b): the memory regions of a and b (pointees of pointers, backing arrays of slices up to cap) are disjoint
func (x *Exec) sepIntrinsic(st *State, args []Val) Val {
	ra := x.regionOf(args[0])
	rb := x.regionOf(args[1])
	if ra == nil || rb == nil {
		x.fail("sep: arguments must be pointers or slices")
	}
	return Val{C: []*Term{regionsDisjoint(*ra, *rb)}}
}

func regionsDisjoint(a, b Region) *Term {
	var bs []*Term
	for _, ta := range a.tagSet() {
		for _, tb := range b.tagSet() {
			bs = append(bs, Neq(BVAdd(a.Blk, BV(int64(ta), 32)), BVAdd(b.Blk, BV(int64(tb), 32))))
		}
	}
	return Or(And(bs...), ULE(BVAdd(a.Off, a.N), b.Off), ULE(BVAdd(b.Off, b.N), a.Off),
		Eq(a.N, BV(0, 64)), Eq(b.N, BV(0, 64)))
}

func (x *Exec) regionOf(v Val) *Region {
	if v.If == nil {
		return nil
	}
	return regionOfTyped(v.If.T, v.If.V)
}

func regionOfTyped(t types.Type, v Val) *Region {
	switch u := t.Underlying().(type) {
	case *types.Pointer:
		n := spanOf(u.Elem())
		return &Region{Blk: v.C[0], Off: v.C[1], N: BV(int64(n), 64), Const: n, Sorts: cellsOf(u.Elem()), Offs: memOffsOf(u.Elem()), Tags: memTagsOf(u.Elem()), MaxTag: maxTagOf(u.Elem()), ElemT: u.Elem()}
	case *types.Slice:
		es := strideOf(u.Elem())
		return &Region{Blk: v.C[0], Off: v.C[1], N: BVMul(v.C[3], BV(int64(es), 64)), ElemSz: es, Sorts: cellsOf(u.Elem()), Offs: memOffsOf(u.Elem()), Tags: memTagsOf(u.Elem()), MaxTag: maxTagOf(u.Elem()), ElemT: u.Elem()}
	}
	return nil
}

func containsArray(t types.Type) bool {
	switch u := t.Underlying().(type) {
	case *types.Array:
		return true
	case *types.Struct:
		for i := 0; i < u.NumFields(); i++ {
			if containsArray(u.Field(i).Type()) {
				return true
			}
		}
	}
	return false
}

func (x *Exec) havocRegion(st *State, r Region, name string) {
	if r.Const > 0 && r.ElemT != nil && containsArray(r.ElemT) {
		// objects with embedded arrays are read at symbolic offsets: havoc them as a fresh inner array
		// (plus a frame axiom) instead of a chain of stores, and name the cells for models
		var paths []string
		cellPaths(r.ElemT, "", &paths)
		type ts struct {
			tag int
			s   *Sort
		}
		arrs := map[ts]*Term{}
		for ci, s := range r.Sorts {
			key := ts{r.Tags[ci], s}
			if _, ok := arrs[key]; ok {
				continue
			}
			bt := BVAdd(r.Blk, BV(int64(key.tag), 32))
			h := x.heapOf(st, s)
			inner := Select(h, bt)
			ninner := Fresh(name+"!arr", ArrS(BV64, s))
			o := Fresh("o", BV64)
			in := And(ULE(r.Off, o), ULT(o, BVAdd(r.Off, r.N)))
			ax := ForallPat([]*Term{o}, Implies(Not(in), Eq(Select(ninner, o), Select(inner, o))), []*Term{Select(ninner, o)})
			x.assume(True(), ax)
			st.Heap[s] = Store(h, bt, ninner)
			arrs[key] = ninner
		}
		for k := range r.Sorts {
			p := ""
			if k < len(paths) {
				p = paths[k]
			}
			x.assume(True(), Eq(Fresh(name+p, r.Sorts[k]), Select(arrs[ts{r.Tags[k], r.Sorts[k]}], BVAdd(r.Off, BV(int64(r.Offs[k]), 64)))))
		}
		return
	}
	if r.Const > 0 {
		var paths []string
		cellPaths(r.ElemT, "", &paths)
		for k := range r.Sorts {
			p := ""
			if k < len(paths) {
				p = paths[k]
			}
			x.storeHeapCell(st, BVAdd(r.Blk, BV(int64(r.Tags[k]), 32)), BVAdd(r.Off, BV(int64(r.Offs[k]), 64)), Fresh(name+p, r.Sorts[k]))
		}
		return
	}
	type tsk struct {
		tag int
		s   *Sort
	}
	seen := map[tsk]bool{}
	for ci, s := range r.Sorts {
		if seen[tsk{r.Tags[ci], s}] {
			continue
		}
		seen[tsk{r.Tags[ci], s}] = true
		h := x.heapOf(st, s)
		rblk := BVAdd(r.Blk, BV(int64(r.Tags[ci]), 32))
		inner := Select(h, rblk)
		ninner := Fresh(name+"!arr", ArrS(BV64, s))
		o := Fresh("o", BV64)
		in := And(ULE(r.Off, o), ULT(o, BVAdd(r.Off, r.N)))
		ax := ForallPat([]*Term{o}, Implies(Not(in), Eq(Select(ninner, o), Select(inner, o))), []*Term{Select(ninner, o)})
		x.assume(True(), ax)
		st.Heap[s] = Store(h, rblk, ninner)
	}
}

func (x *Exec) callContract(st *State, fi *FuncInfo, args []Val, pos token.Pos, resT types.Type) Val {
	key := fi.Key
	// preconditions
	for k, g := range fi.Req {
		c := fi.C.Requires[k]
		if !x.tagOn(c.Tags) {
			continue
		}
		t := x.evalGen(g, st, x.genArgs(g, args, nil, nil, nil, st))
		x.oblige("call-pre", fmt.Sprintf("call:%s/requires%d", key, c.Ord), append([]string{"C04"}, c.Tags...), pos, st, t.C[0], "precondition of "+key+": "+c.Text)
	}
	// old snapshots
	olds := x.snapshotOlds(fi, st, args)
	// regions
	var regs []Region
	for _, g := range fi.Mod {
		v := x.evalGen(g, st, x.genArgs(g, args, nil, nil, nil, st))
		r := x.regionOf(v)
		if r == nil {
			x.fail("modifies clause of %s does not denote a pointer or slice", key)
		}
		if sl, ok := v.If.T.Underlying().(*types.Slice); ok {
			// modifies s[*]: the elements [0, len)
			es := strideOf(sl.Elem())
			r.N = BVMul(v.If.V.C[2], BV(int64(es), 64))
		}
		regs = append(regs, *r)
	}
	// the callee may only write what the caller may write
	if x.spec == 0 && !x.noFrame {
		for ri, r := range regs {
			if r.Const > 0 {
				x.frameCheck(st, r.Blk, r.Off, r.Const, pos)
			} else {
				// symbolic range: both ends inside one caller region, or empty
				var alts []*Term
				alts = append(alts, ULT(r.Blk, BV(localBlkLimit, 32)), Eq(r.N, BV(0, 64)))
				for _, cr := range x.regions {
					var bs []*Term
					for _, t := range cr.tagSet() {
						bs = append(bs, Eq(r.Blk, BVAdd(cr.Blk, BV(int64(t), 32))))
					}
					alts = append(alts, And(Or(bs...), ULE(cr.Off, r.Off), ULE(BVAdd(r.Off, r.N), BVAdd(cr.Off, cr.N)), ULE(r.Off, BVAdd(r.Off, r.N))))
				}
				x.oblige("frame", fmt.Sprintf("call:%s/frame%d", key, ri+1), []string{"C04"}, pos, st, Or(alts...), "callee's modifies set outside the caller's")
			}
		}
	}
	x.callSeq++
	// places the callee restores: their cells are read before the havoc and written back after it
	type keptCell struct {
		blk, off, v *Term
	}
	var kept []keptCell
	for _, g := range fi.Keep {
		v := x.evalGen(g, st, x.genArgs(g, args, nil, nil, nil, st))
		r := x.regionOf(v)
		if r == nil || r.Const == 0 {
			x.fail("keeps clause of %s does not denote a place", key)
		}
		for k := range r.Sorts {
			b, o := BVAdd(r.Blk, BV(int64(r.Tags[k]), 32)), BVAdd(r.Off, BV(int64(r.Offs[k]), 64))
			kept = append(kept, keptCell{b, o, Select(Select(x.heapOf(st, r.Sorts[k]), b), o)})
		}
	}
	// results and modified cells are deterministic (uninterpreted) functions of the callee's read footprint
	fp := x.footprint(st, fi, args)
	argStart := x.lastArgStart
	var outs []*Term
	ufn := "F!" + sanitize(key)
	if x.lawMode {
		ufn = "FL!" + sanitize(key) // law mode: the footprint includes buffer contents (different arity)
	}
	for ri, r := range regs {
		if r.Const > 0 && !symbolicBase(r.Off) {
			for k := range r.Sorts {
				v := UF(fmt.Sprintf("%s!m%d_%d", ufn, ri+1, k), r.Sorts[k], fp...)
				outs = append(outs, v)
				x.storeHeapCell(st, BVAdd(r.Blk, BV(int64(r.Tags[k]), 32)), BVAdd(r.Off, BV(int64(r.Offs[k]), 64)), v)
			}
			continue
		}
		type tsk struct {
			tag int
			s   *Sort
		}
		seen := map[tsk]bool{}
		for ci, srt := range r.Sorts {
			if seen[tsk{r.Tags[ci], srt}] {
				continue
			}
			seen[tsk{r.Tags[ci], srt}] = true
			h := x.heapOf(st, srt)
			rblk := BVAdd(r.Blk, BV(int64(r.Tags[ci]), 32))
			inner := Select(h, rblk)
			ufarr := UF(fmt.Sprintf("%s!m%d_arr%d_%d", ufn, ri+1, srt.W, r.Tags[ci]), ArrS(BV64, srt), fp...)
			ninner := Fresh(fmt.Sprintf("%s.m%d!arr", sanitize(key), ri+1), ArrS(BV64, srt))
			x.assume(True(), Eq(ninner, ufarr))
			outs = append(outs, ufarr)
			o := Fresh("o", BV64)
			in := And(ULE(r.Off, o), ULT(o, BVAdd(r.Off, r.N)))
			ax := ForallPat([]*Term{o}, Implies(Not(in), Eq(Select(ninner, o), Select(inner, o))), []*Term{Select(ninner, o)})
			x.assume(True(), ax)
			st.Heap[srt] = Store(h, rblk, ninner)
		}
	}
	var res Val
	if resT != nil {
		ss := cellsOf(resT)
		res.C = make([]*Term, len(ss))
		for k, srt := range ss {
			res.C[k] = UF(fmt.Sprintf("%s!r%d", ufn, k), srt, fp...)
		}
		x.typeInv(st, resT, res.C)
		res.C = x.normPtrs(st, resT, res.C)
	}
	outs = append(outs, res.C...)
	x.calls = append(x.calls, &callRec{Key: key, FI: fi, Args: args, FP: fp, ArgStart: argStart, Res: res, Outs: outs, Guard: st.G})
	for _, kc := range kept {
		x.storeHeapCell(st, kc.blk, kc.off, kc.v)
	}
	for k, g := range fi.Ens {
		c := fi.C.Ensures[k]
		if !x.tagOn(c.Tags) || hasTag(c.Tags, "leaf") {
			// [X,leaf]: proved for the function itself under X, never handed to callers (keeps their queries small)
			continue
		}
		t := x.evalGen(g, st, x.genArgs(g, args, &res, olds, nil, st))
		x.assume(st.G, t.C[0])
	}
	x.usedContracts[key] = true
	return res
}

func (x *Exec) snapshotOlds(fi *FuncInfo, st *State, args []Val) map[int]Val {
	need := map[int]bool{}
	scan := func(gs []*GenFunc) {
		for _, g := range gs {
			for _, a := range g.Args {
				if a.Kind == "old" {
					need[a.Idx] = true
				}
			}
		}
	}
	scan(fi.Ens)
	for _, gs := range fi.LoopInv {
		scan(gs)
	}
	olds := map[int]Val{}
	for idx := range need {
		pt := fi.PTypes[idx].Underlying().(*types.Pointer)
		x.spec++
		c := x.load(st, args[idx].C, pt.Elem(), token.NoPos)
		x.spec--
		olds[idx] = Val{C: c}
	}
	return olds
}

// build the argument list of a generated spec function.
// args: parameter values (entry values); res: result tuple; olds: snapshots; fr: frame for locals (invariants)
func (x *Exec) genArgs(g *GenFunc, args []Val, res *Val, olds map[int]Val, fr *Frame, st *State) []Val {
	var out []Val
	fi := x.genOwner(g)
	for _, a := range g.Args {
		switch a.Kind {
		case "param", "entry":
			out = append(out, args[a.Idx])
		case "local-param":
			if fr == nil {
				out = append(out, args[a.Idx])
				break
			}
			al := x.paramAlloc(fr, a.Idx)
			if al == nil {
				out = append(out, args[a.Idx])
				break
			}
			out = append(out, x.readAlloc(fr, st, al))
		case "old":
			v, ok := olds[a.Idx]
			if !ok {
				x.fail("old snapshot of parameter %s not available", a.Name)
			}
			out = append(out, v)
		case "result":
			if res == nil {
				x.fail("result %s used where no result exists", a.Name)
			}
			tp := fi.Sig.Results()
			o := tupleOffset(tp, a.Idx)
			n := sizeOf(tp.At(a.Idx).Type())
			out = append(out, Val{C: res.C[o : o+n]})
		case "rangeindex":
			if fr == nil || x.curLoop == nil {
				x.fail("rangeindex used outside a range loop clause")
			}
			var al *ssa.Alloc
			for _, in := range x.curLoop.header.Instrs {
				if ld, ok := in.(*ssa.UnOp); ok && ld.Op == token.MUL {
					if a, ok := ld.X.(*ssa.Alloc); ok && a.Comment == "rangeindex" {
						al = a
						break
					}
				}
			}
			if al == nil {
				x.fail("loop %d is not a range loop", x.curLoop.ord)
			}
			out = append(out, x.readAlloc(fr, st, al))
		case "localaddr":
			if fr == nil {
				x.fail("%s used outside a loop clause", a.Name)
			}
			al := x.localAlloc(fr, a.Var.Pos())
			if al == nil {
				x.fail("local variable %s has no cell at this loop", a.Name)
			}
			out = append(out, Val{C: []*Term{BV(int64(fr.allocs[al]), 32), BV(0, 64)}})
		case "local":
			if fr == nil {
				x.fail("local %s used outside a loop clause", a.Name)
			}
			al := x.localAlloc(fr, a.Var.Pos())
			if al == nil {
				x.fail("local variable %s has no cell at this loop", a.Name)
			}
			out = append(out, x.readAlloc(fr, st, al))
		}
	}
	return out
}

func (x *Exec) genOwner(g *GenFunc) *FuncInfo {
	if fi, ok := x.genOwners[g]; ok {
		return fi
	}
	for _, fi := range x.W.Funcs {
		reg := func(gs []*GenFunc) {
			for _, h := range gs {
				x.genOwners[h] = fi
			}
		}
		reg(fi.Req)
		reg(fi.Ens)
		reg(fi.Mod)
		reg(fi.Keep)
		for _, gs := range fi.LoopInv {
			reg(gs)
		}
		for _, h := range fi.LoopDec {
			x.genOwners[h] = fi
		}
		reg(fi.Split)
		for _, gs := range fi.LoopSplit {
			reg(gs)
		}
	}
	return x.genOwners[g]
}

func (x *Exec) paramAlloc(fr *Frame, idx int) *ssa.Alloc {
	if idx >= len(fr.fn.Params) {
		return nil
	}
	p := fr.fn.Params[idx]
	for _, ref := range *p.Referrers() {
		if s, ok := ref.(*ssa.Store); ok && s.Val == ssa.Value(p) {
			if al, ok := s.Addr.(*ssa.Alloc); ok {
				return al
			}
		}
	}
	return nil
}

func (x *Exec) localAlloc(fr *Frame, pos token.Pos) *ssa.Alloc {
	for al := range fr.allocs {
		if al.Pos() == pos {
			return al
		}
	}
	return nil
}

func (x *Exec) readAlloc(fr *Frame, st *State, al *ssa.Alloc) Val {
	id, ok := fr.allocs[al]
	if !ok {
		x.fail("variable %s is not allocated at this point", al.Comment)
	}
	t := al.Type().Underlying().(*types.Pointer).Elem()
	x.spec++
	c := x.load(st, []*Term{BV(int64(id), 32), BV(0, 64)}, t, token.NoPos)
	x.spec--
	return Val{C: c}
}

// ---------- loops ----------

func (x *Exec) loopContract(ld *loopData) *LoopContract {
	for _, lc := range x.Top.C.Loops {
		if lc.Ord == ld.ord {
			return lc
		}
	}
	return nil
}

func (x *Exec) analyzeLoopWrites(fr *Frame, ld *loopData) {
	for b := range ld.blocks {
		for _, in := range b.Instrs {
			switch i := in.(type) {
			case *ssa.Store:
				if al := rootAlloc(i.Addr); al != nil {
					ld.modAlloc[al] = true
				} else {
					ld.heapW = true
				}
			case *ssa.Call:
				for _, a := range i.Call.Args {
					if _, ok := a.Type().Underlying().(*types.Pointer); ok {
						if al := rootAlloc(a); al != nil {
							ld.modAlloc[al] = true
						}
					}
				}
				if i.Call.IsInvoke() {
					ld.heapW = true
					continue
				}
				if f, ok := i.Call.Value.(*ssa.Function); ok {
					if x.fnWritesHeap(f, map[*ssa.Function]bool{}) {
						ld.heapW = true
					}
				} else if _, ok := i.Call.Value.(*ssa.Builtin); ok {
					if i.Call.Value.Name() == "copy" {
						ld.heapW = true
						for _, a := range i.Call.Args {
							if sl, ok := a.(*ssa.Slice); ok {
								if al := rootAlloc(sl.X); al != nil {
									ld.modAlloc[al] = true
								}
							}
						}
					}
				} else {
					ld.heapW = true
				}
			case *ssa.Slice:
				// a slice of a local array may be written through
				if al := rootAlloc(i.X); al != nil {
					ld.modAlloc[al] = true
				}
			}
		}
	}
}

func (x *Exec) fnWritesHeap(f *ssa.Function, seen map[*ssa.Function]bool) bool {
	if seen[f] {
		return false
	}
	seen[f] = true
	if fi := x.W.ByFn[f]; fi != nil && !fi.C.Inline {
		return len(fi.Mod) > 0
	}
	if f.Blocks == nil {
		return false
	}
	for _, b := range f.Blocks {
		for _, in := range b.Instrs {
			switch i := in.(type) {
			case *ssa.Store:
				if rootAlloc(i.Addr) == nil {
					return true
				}
			case *ssa.Call:
				if g, ok := i.Call.Value.(*ssa.Function); ok {
					if x.fnWritesHeap(g, seen) {
						return true
					}
				} else if bi, ok := i.Call.Value.(*ssa.Builtin); ok {
					if bi.Name() == "copy" {
						return true
					}
				} else {
					return true
				}
			}
		}
	}
	return false
}

func (x *Exec) loopHead(fr *Frame, ld *loopData, st *State) {
	x.curLoop = ld
	defer func() { x.curLoop = nil }()
	lc := x.loopContract(ld)
	if lc == nil {
		x.fail("loop %d of %s has no invariant", ld.ord, x.TopKey)
	}
	invs := x.Top.LoopInv[ld.ord]
	// invariant holds on entry
	for k, g := range invs {
		c := lc.Invs[k]
		if !x.tagOn(c.Tags) {
			continue
		}
		t := x.evalGen(g, st, x.genArgs(g, x.entryArgs, nil, x.olds, fr, st))
		x.oblige("inv-entry", fmt.Sprintf("loop%d/inv%d/entry", ld.ord, c.Ord), c.Tags, fr.fn.Blocks[0].Instrs[0].Pos(), st, t.C[0], "invariant on loop entry: "+c.Text)
	}
	// havoc everything the loop may write
	x.analyzeLoopWrites(fr, ld)
	for al := range ld.modAlloc {
		id, ok := fr.allocs[al]
		if !ok {
			continue // declared inside the loop: fresh every iteration
		}
		t := al.Type().Underlying().(*types.Pointer).Elem()
		name := al.Comment
		if name == "" {
			name = al.Name()
		}
		fc := x.freshCells(fmt.Sprintf("L%d.%s", ld.ord, name), t)
		fc = x.normPtrs(st, t, fc)
		if _, isLoc := st.Loc[id]; isLoc {
			st.Loc[id] = fc
		} else {
			for k, c := range fc {
				x.storeHeapCell(st, BV(int64(id), 32), BV(int64(k), 64), c)
			}
		}
		x.typeInv(st, t, fc)
	}
	if ld.heapW {
		for ri, r := range x.regions {
			x.havocRegion(st, r, fmt.Sprintf("L%d.m%d", ld.ord, ri+1))
		}
	}
	for k, g := range invs {
		c := lc.Invs[k]
		if !x.tagOn(c.Tags) {
			continue
		}
		t := x.evalGen(g, st, x.genArgs(g, x.entryArgs, nil, x.olds, fr, st))
		x.assume(st.G, t.C[0])
		x.learnDistinct(t.C[0])
	}
	// cover: the loop head is reachable under the invariant
	x.cover(fmt.Sprintf("loop%d/cover", ld.ord), st)
	for k, g := range x.Top.LoopSplit[ld.ord] {
		x.applySplitC(st, x.evalGen(g, st, x.genArgs(g, x.entryArgs, nil, x.olds, fr, st)).C[0], lc.Splits[k])
	}
	if g := x.Top.LoopDec[ld.ord]; g != nil {
		ld.dec0 = x.evalGen(g, st, x.genArgs(g, x.entryArgs, nil, x.olds, fr, st)).C[0]
	} else {
		ld.dec0 = nil
	}
}

func (x *Exec) cover(site string, st *State) {
	if x.spec > 0 || x.lawMode {
		return
	}
	o := &Obligation{Name: x.TopKey + "/" + site, Kind: "cover", Func: x.TopKey, Guard: st.G, Goal: False(), NAssume: len(x.Assumes), Expect: "sat", ex: x, Note: "vacuity guard: must be satisfiable"}
	x.Obls = append(x.Obls, o)
}

func (x *Exec) backEdge(fr *Frame, ld *loopData, st *State, from *ssa.BasicBlock) {
	x.curLoop = ld
	defer func() { x.curLoop = nil }()
	lc := x.loopContract(ld)
	invs := x.Top.LoopInv[ld.ord]
	var pos token.Pos
	if n := len(from.Instrs); n > 0 {
		pos = from.Instrs[n-1].Pos()
	}
	for k, g := range invs {
		c := lc.Invs[k]
		if !x.tagOn(c.Tags) {
			continue
		}
		t := x.evalGen(g, st, x.genArgs(g, x.entryArgs, nil, x.olds, fr, st))
		x.oblige("inv-preserved", fmt.Sprintf("loop%d/inv%d/preserved", ld.ord, c.Ord), c.Tags, pos, st, t.C[0], "invariant preserved: "+c.Text)
	}
	if g := x.Top.LoopDec[ld.ord]; g != nil && ld.dec0 != nil {
		d1 := x.evalGen(g, st, x.genArgs(g, x.entryArgs, nil, x.olds, fr, st)).C[0]
		x.oblige("decreases", fmt.Sprintf("loop%d/decreases", ld.ord), []string{"C04"}, pos, st, And(SLT(d1, ld.dec0), SLE(BV(0, 64), ld.dec0)), "loop variant decreases and is bounded below")
	}
}

// ---------- top level ----------

func newExec(w *World, fi *FuncInfo, active map[string]bool) *Exec {
	return &Exec{W: w, Top: fi, TopKey: fi.Key, Active: active, assumed: map[*Term]bool{}, counters: map[string]int{},
		globals: map[*ssa.Global]int{}, strBlks: map[string]int{}, baseHeap: map[*Sort]*Term{}, genOwners: map[*GenFunc]*FuncInfo{},
		usedContracts: map[string]bool{}}
}

func (x *Exec) symbolicArg(name string, t types.Type) Val {
	ss := cellsOf(t)
	var paths []string
	cellPaths(t, "", &paths)
	out := make([]*Term, len(ss))
	for i, s := range ss {
		p := paths[i]
		n := name + p
		if strings.HasSuffix(p, "#blk") {
			n = "blk!" + name + strings.TrimSuffix(p, "#blk")
		}
		out[i] = Var(n, s)
	}
	return Val{C: out}
}

func (x *Exec) verifyFunc() (err error) {
	defer func() {
		if r := recover(); r != nil {
			if u, ok := r.(unsupported); ok {
				err = fmt.Errorf("%s: outside the supported subset: %s", x.TopKey, u.msg)
				return
			}
			panic(r)
		}
	}()
	if x.lawMode {
		x.proveLaws()
		return nil
	}
	st, args := x.prologue()
	x.unaryBody(st, args)
	return nil
}

// prologue: symbolic arguments, type and alias assumptions, preconditions, old snapshots, modifies regions
func (x *Exec) prologue() (*State, []Val) {
	fi := x.Top
	st := &State{G: True(), Loc: map[int][]*Term{}, Heap: map[*Sort]*Term{}}
	x.runInit(st)
	var args []Val
	for i, n := range fi.PNames {
		args = append(args, x.symbolicArg(n, fi.PTypes[i]))
	}
	x.entryArgs = args
	// block ids of parameters: nil or in the parameter range
	var preg []Region
	for i, t := range fi.PTypes {
		switch t.Underlying().(type) {
		case *types.Pointer, *types.Slice:
			blk := args[i].C[0]
			x.assume(True(), And(Or(Eq(blk, BV(0, 32)), UGE(blk, BV(paramBlkBase, 32))), Eq(BVAnd(blk, BV(4095, 32)), BV(0, 32)), ULE(blk, BV(0xfffff000, 32))))
			if r := regionOfTyped(t, args[i]); r != nil {
				preg = append(preg, *r)
			}
			if _, ok := t.Underlying().(*types.Slice); ok {
				x.assume(True(), Implies(Eq(blk, BV(0, 32)), Eq(args[i].C[3], BV(0, 64))))
			}
		case *types.Interface:
			blk := args[i].C[1]
			x.assume(True(), And(Or(Eq(blk, BV(0, 32)), UGE(blk, BV(paramBlkBase, 32))), Eq(BVAnd(blk, BV(4095, 32)), BV(0, 32)), ULE(blk, BV(0xfffff000, 32))))
			// the dynamic value: a pointer to the single implementation known in the package
			if impls := x.W.ifaceImpls(t); len(impls) == 1 {
				pt := impls[0].(*types.Pointer)
				al := alignOf(pt.Elem())
				off := alignedOff(args[i].C[2], al)
				if off != args[i].C[2] {
					x.assume(True(), Eq(args[i].C[2], off))
					args[i].C = []*Term{args[i].C[0], args[i].C[1], off}
				}
				if r := regionOfTyped(pt, Val{C: []*Term{args[i].C[1], args[i].C[2]}}); r != nil {
					preg = append(preg, *r)
				}
				// nil interface has a nil dynamic pointer; a non-nil one is of that type
				x.assume(True(), And(Implies(Eq(args[i].C[0], BV(0, 32)), And(Eq(blk, BV(0, 32)), Eq(args[i].C[2], BV(0, 64)))),
					Or(Eq(args[i].C[0], BV(0, 32)), Eq(args[i].C[0], BV(int64(x.typeID(pt)), 32)))))
			}
		}
		x.typeInv(st, t, args[i].C)
		args[i].C = x.normPtrs(st, t, args[i].C)
	}
	// A-ALIAS: memory regions of distinct pointer / slice parameters are disjoint,
	// except that read-only byte buffers may overlap each other.
	for a := 0; a < len(preg); a++ {
		for b := a + 1; b < len(preg); b++ {
			if isByteRegion(preg[a]) && isByteRegion(preg[b]) {
				continue
			}
			if isByteRegion(preg[a]) != isByteRegion(preg[b]) {
				// a byte buffer never shares a block with a parser object (no unsafe in the package)
				declareDistinct(preg[a].Blk, preg[b].Blk)
				x.assume(True(), Neq(preg[a].Blk, preg[b].Blk))
				continue
			}
			x.assume(True(), regionsDisjoint(preg[a], preg[b]))
		}
	}
	for k, g := range fi.Split {
		if x.lawMode {
			break // laws are proved without case analysis
		}
		x.applySplitC(st, x.evalGen(g, st, x.genArgs(g, args, nil, nil, nil, st)).C[0], fi.C.Splits[k])
	}
	// requires
	for k, g := range fi.Req {
		c := fi.C.Requires[k]
		if !x.tagOn(c.Tags) {
			continue
		}
		t := x.evalGen(g, st, x.genArgs(g, args, nil, nil, nil, st))
		x.assume(True(), t.C[0])
		x.reqTerms = append(x.reqTerms, t.C[0])
		x.learnDistinct(t.C[0])
	}
	x.cover("requires/cover", st)
	x.olds = x.snapshotOlds(fi, st, args)
	// modifies regions
	for _, g := range fi.Mod {
		v := x.evalGen(g, st, x.genArgs(g, args, nil, nil, nil, st))
		r := x.regionOf(v)
		if r == nil {
			x.fail("modifies clause does not denote a pointer or slice")
		}
		if sl, ok := v.If.T.Underlying().(*types.Slice); ok {
			es := strideOf(sl.Elem())
			r.N = BVMul(v.If.V.C[2], BV(int64(es), 64))
		}
		x.regions = append(x.regions, *r)
	}
	return st, args
}

func (x *Exec) unaryBody(st *State, args []Val) {
	fi := x.Top
	fn := fi.Fn
	fr := &Frame{fn: fn, vals: map[ssa.Value]Val{}, allocs: map[*ssa.Alloc]int{}, args: args, top: true}
	if fn.Parent() != nil && len(fn.FreeVars) > 0 {
		x.fail("closure with free variables as a top-level function")
	}
	rets := x.runBody(fr, st)
	if len(rets) == 0 {
		return
	}
	check := func(rst *State, rv Val, pos token.Pos) {
		for k, g := range fi.Ens {
			c := fi.C.Ensures[k]
			if !x.tagOn(c.Tags) {
				continue
			}
			t := x.evalGen(g, rst, x.genArgs(g, args, &rv, x.olds, nil, rst))
			site := fmt.Sprintf("ensures%d", c.Ord)
			if c.Name != "" {
				site = "ensures:" + c.Name
			}
			x.oblige("ensures", site, c.Tags, pos, rst, t.C[0], "postcondition: "+c.Text)
		}
	}
	if x.splitRet {
		for _, r := range rets {
			check(r.st, r.val, r.pos)
		}
	} else {
		var ps []predState
		for _, r := range rets {
			ps = append(ps, predState{nil, r.st})
		}
		m := x.mergeStates(ps)
		v := rets[len(rets)-1].val
		for k := len(rets) - 2; k >= 0; k-- {
			v = mergeVals(rets[k].st.G, rets[k].val, v)
		}
		check(m, v, fn.Pos())
	}
}

func isByteRegion(r Region) bool {
	return r.Const == 0 && len(r.Sorts) == 1 && r.Sorts[0] == BV8
}

type callRec struct {
	Key      string
	FI       *FuncInfo
	Args     []Val
	FP       []*Term
	ArgStart []int // position in FP of the first cell of every argument
	Res      Val
	Outs     []*Term // every output of the callee's summary: result cells, modified cells / arrays
	Guard    *Term
}

// footprint: everything a callee can read through its arguments (two levels deep)
func (x *Exec) footprint(st *State, fi *FuncInfo, args []Val) []*Term {
	var out []*Term
	seen := map[*Term]bool{}
	add := func(t *Term) {
		// no de-duplication: the arity of the callee's summary functions must be the same at every call
		_ = seen
		out = append(out, t)
	}
	var visit func(t types.Type, c []*Term, depth int)
	visit = func(t types.Type, c []*Term, depth int) {
		for _, cc := range c {
			add(cc)
		}
		if depth >= 2 {
			return
		}
		var rec func(t types.Type, off int)
		rec = func(t types.Type, off int) {
			switch u := t.Underlying().(type) {
			case *types.Pointer:
				if _, isStruct := u.Elem().Underlying().(*types.Struct); !isStruct {
					if _, isArr := u.Elem().Underlying().(*types.Array); !isArr {
						if _, isB := u.Elem().Underlying().(*types.Basic); !isB {
							return
						}
					}
				}
				x.spec++
				pc := x.load(st, c[off:off+2], u.Elem(), token.NoPos)
				x.spec--
				visit(u.Elem(), pc, depth+1)
			case *types.Slice:
				if !x.lawMode {
					return
				}
				sn := map[*Sort]bool{}
				for _, srt := range cellsOf(u.Elem()) {
					if !sn[srt] {
						sn[srt] = true
						add(Select(x.heapOf(st, srt), c[off]))
					}
				}
			case *types.Struct:
				o := off
				for i := 0; i < u.NumFields(); i++ {
					ft := u.Field(i).Type()
					if hasSlice(ft) {
						rec(ft, o)
					}
					o += sizeOf(ft)
				}
			case *types.Array:
				if hasSlice(u.Elem()) {
					es := sizeOf(u.Elem())
					for i := 0; i < int(u.Len()); i++ {
						rec(u.Elem(), off+i*es)
					}
				}
			case *types.Interface:
				// dynamic value: pointer to one of the known implementations
				impls := x.W.ifaceImpls(t)
				if len(impls) == 1 {
					pt := impls[0].(*types.Pointer)
					x.spec++
					pc := x.load(st, c[off+1:off+3], pt.Elem(), token.NoPos)
					x.spec--
					visit(pt.Elem(), pc, depth+1)
				}
			}
		}
		if hasSlice(t) {
			rec(t, 0)
		} else if _, ok := t.Underlying().(*types.Interface); ok {
			rec(t, 0)
		}
	}
	x.lastArgStart = nil
	for i, a := range args {
		x.lastArgStart = append(x.lastArgStart, len(out))
		visit(fi.PTypes[i], a.C, 0)
	}
	return out
}

// learnDistinct registers block disequalities that are top-level conjuncts of an assumed fact, so that
// reads and writes through those blocks are separated syntactically. For loop invariants the fact
// holds in every state derived from the loop head, which is where the head's fresh terms occur.
func (x *Exec) learnDistinct(t *Term) {
	if os.Getenv("GOVC_DEBUG") != "" {
		for _, c := range conjuncts(t) {
			fmt.Fprintf(os.Stderr, "conj %s\n", truncate(c.String(), 160))
		}
	}
	for _, c := range conjuncts(t) {
		if c.Op == "not" && c.Args[0].Op == "=" {
			a, b := c.Args[0].Args[0], c.Args[0].Args[1]
			if a.S == BV32 && b.S == BV32 {
				declareDistinct(a, b)
				if os.Getenv("GOVC_DEBUG") != "" {
					fmt.Fprintf(os.Stderr, "learnDistinct %s  /  %s\n", a, b)
				}
			}
		}
	}
}

// applySplitC: execution-level case analysis. A split clause has two cases (condition true / false), a
// cases clause one per value lo..hi plus one for "none of them". x.caseIdx[k] selects the case of the k-th
// split point in this run; the chosen condition is assumed and becomes a fact for the term simplifier.
func (x *Exec) applySplitC(st *State, v *Term, cl *Clause) {
	k := x.nSplits
	x.nSplits++
	arity := 2
	if cl.Kind == "cases" {
		arity = cl.Hi - cl.Lo + 2
	}
	x.splitArity = append(x.splitArity, arity)
	idx := 0
	if k < len(x.caseIdx) {
		idx = x.caseIdx[k]
	}
	var c *Term
	if cl.Kind == "cases" {
		if idx < arity-1 {
			c = Eq(v, BV(int64(cl.Lo+idx), 64))
			// the cast int(expr) is a zero/sign extension: record the fact on the underlying term too
			if (v.Op == "zext" || v.Op == "sext") && !c.IsTrue() && !c.IsFalse() {
				inner := v.Args[0]
				setFact(Eq(inner, BV(int64(cl.Lo+idx), inner.S.W)))
			}
		} else {
			var ns []*Term
			for j := cl.Lo; j <= cl.Hi; j++ {
				ns = append(ns, Not(Eq(v, BV(int64(j), 64))))
			}
			c = And(ns...)
		}
	} else {
		c = v
		if idx == 0 {
			c = Not(v)
		}
	}
	x.assume(st.G, c)
	if !c.IsTrue() && !c.IsFalse() {
		setFact(c)
	}
	if c.IsFalse() {
		st.G = False()
	}
	x.caseTag += fmt.Sprintf("[%d]", idx)
}

// symbolicBase: the offset is not (variable + constant); objects at such offsets (slice elements at a
// symbolic index) are havoc'd as a fresh array with a frame axiom instead of a chain of stores.
func symbolicBase(off *Term) bool {
	base, _ := linear(off)
	return base != nil && base.Op != "var"
}

// callUninterp: a specification function declared uninterpreted. Its value is an uninterpreted function of
// its scalar arguments and, for slices, of the backing array content and start; its ensures clauses are
// axioms, instantiated (one level deep) at every application.
func (x *Exec) callUninterp(st *State, fi *FuncInfo, args []Val, resT types.Type) Val {
	var ua []*Term
	rel := map[string]*Term{} // position parameter -> offset of the slice it is relative to
	var endArg *Term
	if len(fi.C.RelPos) > 1 {
		for i, n := range fi.PNames {
			if n == fi.C.RelPos[0] {
				for _, pn := range fi.C.RelPos[1:] {
					if pn == "+len" {
						endArg = BVAdd(args[i].C[1], args[i].C[2])
						continue
					}
					rel[pn] = args[i].C[1]
				}
			}
		}
	}
	for i, a := range args {
		if base, ok := rel[fi.PNames[i]]; ok {
			ua = append(ua, BVAdd(base, a.C[0]))
			continue
		}
		if len(rel) > 0 && fi.PNames[i] == fi.C.RelPos[0] {
			if u, ok := fi.PTypes[i].Underlying().(*types.Slice); ok {
				for _, srt := range cellsOf(u.Elem()) {
					ua = append(ua, Select(x.heapOf(st, srt), a.C[0]))
					break
				}
				continue
			}
		}
		switch u := fi.PTypes[i].Underlying().(type) {
		case *types.Slice:
			seen := map[*Sort]bool{}
			for _, srt := range cellsOf(u.Elem()) {
				if !seen[srt] {
					seen[srt] = true
					ua = append(ua, Select(x.heapOf(st, srt), a.C[0]))
				}
			}
			ua = append(ua, a.C[1])
		default:
			ua = append(ua, a.C...)
		}
	}
	if endArg != nil {
		ua = append(ua, endArg)
	}
	ss := cellsOf(resT)
	res := Val{C: make([]*Term, len(ss))}
	for k, srt := range ss {
		res.C[k] = UF(fmt.Sprintf("U!%s!%d", sanitize(fi.Key), k), srt, ua...)
	}
	if x.unfold < 2 && x.quant == 0 {
		key := fmt.Sprintf("%s#%d", fi.Key, res.C[0].id)
		if !x.unfolded[key] {
			if x.unfolded == nil {
				x.unfolded = map[string]bool{}
			}
			x.unfolded[key] = true
			x.unfold++
			for _, g := range fi.Ens {
				t := x.evalGen(g, st, x.genArgs(g, args, &res, nil, nil, st))
				x.assume(True(), t.C[0])
			}
			x.unfold--
		}
	}
	return res
}


// runInit executes the straight-line part of the package initialiser symbolically on a scratch state, so that
// package-level variables with constant initialisers (sipVerSP, sigHdrs, the string tables) have their real
// contents. The contents are turned into assumptions about the base heap lazily, when a function under
// proof first refers to the variable. Variables assigned by the init#k functions (the lookup tables) stay unknown.
func (x *Exec) runInit(_ *State) {
	init := x.W.SPkg.Func("init")
	if init == nil || len(init.Blocks) < 2 {
		return
	}
	ist := &State{G: True(), Loc: map[int][]*Term{}, Heap: map[*Sort]*Term{}}
	x.initMode = true
	x.spec++
	fr := &Frame{fn: init, vals: map[ssa.Value]Val{}, allocs: map[*ssa.Alloc]int{}}
	func() {
		defer func() {
			x.spec--
			x.initMode = false
		}()
		for _, in := range init.Blocks[1].Instrs {
			switch in.(type) {
			case *ssa.Jump, *ssa.If, *ssa.Return:
				continue
			}
			x.instr(fr, ist, in)
		}
	}()
	x.initState = ist
	x.initAllocT = map[int]types.Type{}
	for al, id := range fr.allocs {
		x.initAllocT[id] = al.Type().Underlying().(*types.Pointer).Elem()
	}
	// globals written by the table builders: unknown content
	x.initHavoc = map[*ssa.Global]bool{}
	for _, m := range x.W.SPkg.Members {
		f, ok := m.(*ssa.Function)
		if !ok || !strings.HasPrefix(f.Name(), "init#") {
			continue
		}
		for _, b := range f.Blocks {
			for _, in := range b.Instrs {
				s, ok := in.(*ssa.Store)
				if !ok {
					continue
				}
				v := s.Addr
				for {
					switch a := v.(type) {
					case *ssa.FieldAddr:
						v = a.X
						continue
					case *ssa.IndexAddr:
						v = a.X
						continue
					}
					break
				}
				if g, ok := v.(*ssa.Global); ok {
					x.initHavoc[g] = true
				}
			}
		}
	}
}

// assumeInitBlock: the cells of block id (a package-level variable or an object allocated by init) have
// the values the initialiser stored, in the base heap. Followed transitively through pointers and slices.
func (x *Exec) assumeInitBlock(id int, t types.Type) {
	if x.initState == nil || x.initDone[id] {
		return
	}
	if x.initDone == nil {
		x.initDone = map[int]bool{}
	}
	x.initDone[id] = true
	ss := cellsOf(t)
	mo, mt := memOffsOf(t), memTagsOf(t)
	vals := make([]*Term, len(ss))
	for k, srt := range ss {
		ih, ok := x.initState.Heap[srt]
		if !ok {
			continue
		}
		bt := BV(int64(id+mt[k]), 32)
		off := BV(int64(mo[k]), 64)
		v := Select(Select(ih, bt), off)
		if v.Op == "select" {
			continue // never written by the straight-line initialiser: zero value or unknown
		}
		vals[k] = v
		base := x.baseHeapOf(srt)
		x.assume(True(), Eq(Select(Select(base, bt), off), v))
		if x.constMem == nil {
			x.constMem = map[[2]uint64]*Term{}
		}
		x.constMem[[2]uint64{bt.U64(), off.U64()}] = v
	}
	// follow pointers into init-allocated blocks
	var rec func(t types.Type, off int)
	rec = func(t types.Type, off int) {
		switch u := t.Underlying().(type) {
		case *types.Slice, *types.Pointer:
			b := vals[off]
			if b != nil && b.Op == "const" {
				bid := int(b.U64())
				if et, ok := x.initAllocT[bid]; ok {
					x.assumeInitBlock(bid, et)
				}
			}
			_ = u
		case *types.Struct:
			o := off
			for i := 0; i < u.NumFields(); i++ {
				if hasSlice(u.Field(i).Type()) {
					rec(u.Field(i).Type(), o)
				}
				o += sizeOf(u.Field(i).Type())
			}
		case *types.Array:
			if hasSlice(u.Elem()) {
				es := sizeOf(u.Elem())
				for i := 0; i < int(u.Len()); i++ {
					rec(u.Elem(), off+i*es)
				}
			}
		}
	}
	if hasSlice(t) {
		rec(t, 0)
	}
}

func (x *Exec) baseHeapOf(s *Sort) *Term {
	if h, ok := x.baseHeap[s]; ok {
		return h
	}
	tmp := &State{Heap: map[*Sort]*Term{}}
	return x.heapOf(tmp, s)
}

func hasTag(tags []string, t string) bool {
	for _, x := range tags {
		if x == t {
			return true
		}
	}
	return false
}
