package main

// Hash-consed SMT term DAG with light simplification and SMT-LIB2 printing.

import (
	"fmt"
	"math/big"
	"sort"
	"strconv"
	"strings"
)

type SortKind int

const (
	SBool SortKind = iota
	SBV
	SArr
)

type Sort struct {
	K    SortKind
	W    int
	Idx  *Sort
	Elem *Sort
	str  string
}

var sortTab = map[string]*Sort{}

func mkSort(s *Sort) *Sort {
	switch s.K {
	case SBool:
		s.str = "Bool"
	case SBV:
		s.str = fmt.Sprintf("(_ BitVec %d)", s.W)
	case SArr:
		s.str = fmt.Sprintf("(Array %s %s)", s.Idx.str, s.Elem.str)
	}
	if o, ok := sortTab[s.str]; ok {
		return o
	}
	sortTab[s.str] = s
	return s
}

var BoolS = mkSort(&Sort{K: SBool})

func BVS(w int) *Sort          { return mkSort(&Sort{K: SBV, W: w}) }
func ArrS(idx, el *Sort) *Sort { return mkSort(&Sort{K: SArr, Idx: idx, Elem: el}) }
func (s *Sort) String() string { return s.str }

var (
	BV8  = BVS(8)
	BV16 = BVS(16)
	BV32 = BVS(32)
	BV64 = BVS(64)
)

type Term struct {
	Op   string // "const","var","true","false", smt op names, "extract","zext","sext","forall","exists","uf"
	Args []*Term
	S    *Sort
	Val  *big.Int // for const
	Name string   // for var / uf name
	I, J int      // extract hi/lo, ext amount
	BVs  []*Term  // bound vars of quantifier
	id   int
}

var (
	termTab  = map[string]*Term{}
	termSeq  int
	freshSeq int
)

func resetTerms() {
	termTab = map[string]*Term{}
	termSeq = 0
	freshSeq = 0
	distinctPairs = map[[2]int]bool{}
	selectCache = map[[2]int]*Term{}
}

func intern(t *Term) *Term {
	var sb strings.Builder
	sb.WriteString(t.Op)
	sb.WriteByte('|')
	sb.WriteString(t.S.str)
	sb.WriteByte('|')
	if t.Val != nil {
		sb.WriteString(t.Val.String())
	}
	sb.WriteString(t.Name)
	sb.WriteByte('|')
	if t.I != 0 || t.J != 0 {
		sb.WriteString(strconv.Itoa(t.I))
		sb.WriteByte(',')
		sb.WriteString(strconv.Itoa(t.J))
	}
	for _, a := range t.Args {
		sb.WriteByte(' ')
		sb.WriteString(strconv.Itoa(a.id))
	}
	for _, a := range t.BVs {
		sb.WriteByte('^')
		sb.WriteString(strconv.Itoa(a.id))
	}
	k := sb.String()
	if o, ok := termTab[k]; ok {
		return o
	}
	termSeq++
	t.id = termSeq
	termTab[k] = t
	return t
}

var (
	tTrue  *Term
	tFalse *Term
)

func True() *Term  { return intern(&Term{Op: "true", S: BoolS}) }
func False() *Term { return intern(&Term{Op: "false", S: BoolS}) }
func BoolC(b bool) *Term {
	if b {
		return True()
	}
	return False()
}

func mask(w int) *big.Int {
	m := new(big.Int).Lsh(big.NewInt(1), uint(w))
	return m.Sub(m, big.NewInt(1))
}

func BVBig(v *big.Int, w int) *Term {
	x := new(big.Int).And(v, mask(w)) // two's complement wrap (And on negative big.Int does the right thing)
	return intern(&Term{Op: "const", S: BVS(w), Val: x})
}
func BV(v int64, w int) *Term   { return BVBig(big.NewInt(v), w) }
func BVU(v uint64, w int) *Term { return BVBig(new(big.Int).SetUint64(v), w) }

func Var(name string, s *Sort) *Term { return intern(&Term{Op: "var", S: s, Name: name}) }
func Fresh(prefix string, s *Sort) *Term {
	freshSeq++
	return Var(fmt.Sprintf("%s!%d", prefix, freshSeq), s)
}

func (t *Term) IsConst() bool { return t.Op == "const" }
func (t *Term) IsTrue() bool  { return t.Op == "true" }
func (t *Term) IsFalse() bool { return t.Op == "false" }
func (t *Term) U64() uint64   { return t.Val.Uint64() }

// signed value of a constant
func (t *Term) SInt() *big.Int {
	v := new(big.Int).Set(t.Val)
	if v.Bit(t.S.W-1) == 1 {
		v.Sub(v, new(big.Int).Lsh(big.NewInt(1), uint(t.S.W)))
	}
	return v
}

// case facts: literals known true/false in the current case of a split (execution-level case analysis)
var knownTrue = map[int]bool{}
var knownFalse = map[int]bool{}
var knownVal = map[int]*Term{}

func clearFacts() {
	knownTrue = map[int]bool{}
	knownFalse = map[int]bool{}
	knownVal = map[int]*Term{}
	selectCache = map[[2]int]*Term{}
	// disequalities learned from one function's (or one case's) assumptions must not leak into another:
	// terms are hash-consed globally and parameter names recur
	distinctPairs = map[[2]int]bool{}
}

func setFact(t *Term) {
	selectCache = map[[2]int]*Term{}
	if t.Op == "and" {
		for _, a := range t.Args {
			setFact(a)
		}
		return
	}
	if t.Op == "not" {
		knownFalse[t.Args[0].id] = true
		return
	}
	if t.Op == "true" || t.Op == "false" {
		return
	}
	knownTrue[t.id] = true
	if t.Op == "=" {
		if t.Args[1].Op == "const" && t.Args[0].Op != "const" {
			knownVal[t.Args[0].id] = t.Args[1]
		} else if t.Args[0].Op == "const" && t.Args[1].Op != "const" {
			knownVal[t.Args[1].id] = t.Args[0]
		}
	}
}

func factOf(t *Term) int {
	if len(knownTrue) == 0 && len(knownFalse) == 0 {
		return 0
	}
	if knownTrue[t.id] {
		return 1
	}
	if knownFalse[t.id] {
		return -1
	}
	return 0
}

func Not(a *Term) *Term {
	switch factOf(a) {
	case 1:
		return False()
	case -1:
		return True()
	}
	if a.IsTrue() {
		return False()
	}
	if a.IsFalse() {
		return True()
	}
	if a.Op == "not" {
		return a.Args[0]
	}
	return intern(&Term{Op: "not", Args: []*Term{a}, S: BoolS})
}

func nary(op string, unit, zero *Term, args []*Term) *Term {
	var out []*Term
	seen := map[int]bool{}
	for _, a := range args {
		if f := factOf(a); f != 0 {
			if (f == 1) == (op == "and") {
				continue // evaluates to the unit
			}
			return zero
		}
		if a == zero {
			return zero
		}
		if a == unit {
			continue
		}
		if a.Op == op {
			for _, b := range a.Args {
				if !seen[b.id] {
					seen[b.id] = true
					out = append(out, b)
				}
			}
			continue
		}
		if !seen[a.id] {
			seen[a.id] = true
			out = append(out, a)
		}
	}
	// a and not a
	for _, a := range out {
		if a.Op == "not" && seen[a.Args[0].id] {
			return zero
		}
	}
	if len(out) > 1 && len(out) <= 64 {
		if r, changed := propagate(op, unit, zero, out, seen); changed {
			return r
		}
	}
	if len(out) == 0 {
		return unit
	}
	if len(out) == 1 {
		return out[0]
	}
	return intern(&Term{Op: op, Args: out, S: BoolS})
}

func negOf(t *Term) *Term {
	if t.Op == "not" {
		return t.Args[0]
	}
	return nil
}

// propagate: unit propagation of the top-level literals into nested or/and arguments, and
// merging of complementary disjuncts/conjuncts ((A&B)|(A&!B) = A).
func propagate(op string, unit, zero *Term, out []*Term, top map[int]bool) (*Term, bool) {
	dual := "or"
	if op == "or" {
		dual = "and"
	}
	isTop := func(t *Term) bool { return top[t.id] }
	// under "and": a literal l in top is true; under "or": a literal in top is false (we are in the case where all top are false)
	// so for "and": inside nested Or(ys): y in top -> Or true (drop arg); not(y) with y in top, or y=not(l) with l in top -> y false (drop y)
	// for "or": inside nested And(ys): y in top -> y false -> And false (drop arg); negation of a top member -> true (drop y)
	changed := false
	var res []*Term
	for _, a := range out {
		var ys []*Term
		neg := false
		switch {
		case a.Op == dual:
			ys = a.Args
		case a.Op == "not" && a.Args[0].Op == op:
			// not(and(ys)) under and  ==  or(not ys);  not(or(ys)) under or == and(not ys)
			ys = a.Args[0].Args
			neg = true
		default:
			res = append(res, a)
			continue
		}
		var keep []*Term
		dropArg := false
		mod := false
		for _, y := range ys {
			lit := y
			if neg {
				lit = Not(y)
			}
			// lit is a member of the nested dual
			if isTop(lit) {
				// and: Or(...true...) = true -> arg is unit ; or: And(...false...) = false -> arg is unit
				dropArg = true
				break
			}
			nl := Not(lit)
			if isTop(nl) {
				mod = true // literal evaluates to the dual's unit: drop it
				continue
			}
			keep = append(keep, lit)
		}
		if dropArg {
			changed = true
			continue
		}
		if !mod {
			res = append(res, a)
			continue
		}
		changed = true
		var na *Term
		if dual == "or" {
			na = Or(keep...)
		} else {
			na = And(keep...)
		}
		res = append(res, na)
	}
	if changed {
		if op == "and" {
			return And(res...), true
		}
		return Or(res...), true
	}
	// complementary merge: (X & c) op' (X & !c)
	if len(out) <= 24 {
		for i := 0; i < len(out); i++ {
			for j := i + 1; j < len(out); j++ {
				if m := mergeCompl(dual, out[i], out[j]); m != nil {
					var r2 []*Term
					for k, t := range out {
						if k != i && k != j {
							r2 = append(r2, t)
						}
					}
					r2 = append(r2, m)
					if op == "and" {
						return And(r2...), true
					}
					return Or(r2...), true
				}
			}
		}
	}
	return nil, false
}

func elems(dual string, t *Term) []*Term {
	if t.Op == dual {
		return t.Args
	}
	return []*Term{t}
}

func mergeCompl(dual string, a, b *Term) *Term {
	ea, eb := elems(dual, a), elems(dual, b)
	if len(ea) != len(eb) {
		return nil
	}
	inB := map[int]bool{}
	for _, t := range eb {
		inB[t.id] = true
	}
	var da *Term
	var common []*Term
	for _, t := range ea {
		if inB[t.id] {
			common = append(common, t)
		} else if da == nil {
			da = t
		} else {
			return nil
		}
	}
	if da == nil {
		return nil
	}
	nd := Not(da)
	if !inB[nd.id] {
		return nil
	}
	if dual == "and" {
		return And(common...)
	}
	return Or(common...)
}

func And(args ...*Term) *Term { return nary("and", True(), False(), args) }
func Or(args ...*Term) *Term  { return nary("or", False(), True(), args) }
func Implies(a, b *Term) *Term {
	if a.IsTrue() {
		return b
	}
	if a.IsFalse() || b.IsTrue() {
		return True()
	}
	if b.IsFalse() {
		return Not(a)
	}
	return intern(&Term{Op: "=>", Args: []*Term{a, b}, S: BoolS})
}

func Ite(c, a, b *Term) *Term {
	switch factOf(c) {
	case 1:
		return a
	case -1:
		return b
	}
	if c.IsTrue() {
		return a
	}
	if c.IsFalse() {
		return b
	}
	if a == b {
		return a
	}
	if a.S != b.S {
		panic(fmt.Sprintf("ite sort mismatch %s vs %s", a.S, b.S))
	}
	if a.S == BoolS {
		if a.IsTrue() && b.IsFalse() {
			return c
		}
		if a.IsFalse() && b.IsTrue() {
			return Not(c)
		}
		if a.IsTrue() {
			return Or(c, b)
		}
		if a.IsFalse() {
			return And(Not(c), b)
		}
		if b.IsTrue() {
			return Or(Not(c), a)
		}
		if b.IsFalse() {
			return And(c, a)
		}
	}
	if c.Op == "not" {
		return Ite(c.Args[0], b, a)
	}
	// ite(c, x, ite(c, y, z)) = ite(c,x,z)
	if b.Op == "ite" && b.Args[0] == c {
		return Ite(c, a, b.Args[2])
	}
	if a.Op == "ite" && a.Args[0] == c {
		return Ite(c, a.Args[1], b)
	}
	return intern(&Term{Op: "ite", Args: []*Term{c, a, b}, S: a.S})
}

// linear decomposition of a BV term: base + const
func linear(t *Term) (*Term, *big.Int) {
	if t.Op == "const" {
		return nil, t.Val
	}
	if t.Op == "concat" && t.Args[1].Op == "const" && t.Args[1].Val.Sign() != 0 {
		return Concat(t.Args[0], BV(0, t.Args[1].S.W)), t.Args[1].Val
	}
	if t.Op == "bvadd" && len(t.Args) == 2 {
		if t.Args[1].Op == "const" {
			b, c := linear(t.Args[0])
			s := new(big.Int).Add(c, t.Args[1].Val)
			s.And(s, mask(t.S.W))
			return b, s
		}
		if t.Args[0].Op == "const" {
			b, c := linear(t.Args[1])
			s := new(big.Int).Add(c, t.Args[0].Val)
			s.And(s, mask(t.S.W))
			return b, s
		}
	}
	return t, big.NewInt(0)
}

var distinctPairs = map[[2]int]bool{}

func declareDistinct(a, b *Term) {
	distinctPairs[[2]int{a.id, b.id}] = true
	distinctPairs[[2]int{b.id, a.id}] = true
}

// syntactic disequality
func knownDistinct(a, b *Term) bool {
	if a == b {
		return false
	}
	if a.S.K != SBV {
		return false
	}
	if distinctPairs[[2]int{a.id, b.id}] {
		return true
	}
	ba, ca := linear(a)
	bb, cb := linear(b)
	if ba == bb && ca.Cmp(cb) != 0 {
		return true
	}
	if a.S.W == 32 {
		if blkDistinct(a, b) || blkDistinct(b, a) {
			return true
		}
	}
	return false
}

// block-id conventions: root blocks are multiples of 16; (root + tag) with tag < 16 are its sub-blocks.
// locals < 0x40000, spec temporaries in [0x40000, 0x80000), globals in [0x80000, 0x100000), parameters
// (variables named blk!*) >= 0x100000.
func blkDistinct(a, b *Term) bool {
	isParam := func(t *Term) (bool, *big.Int) {
		base, c := linear(t)
		if base != nil && base.Op == "var" && strings.HasPrefix(base.Name, "blk!") && c.Cmp(big.NewInt(4096)) < 0 {
			return true, c
		}
		return false, nil
	}
	if a.Op == "const" && a.Val.Sign() != 0 {
		// spec temporaries never escape: no symbolic block value denotes them
		if b.Op != "const" && a.Val.Cmp(big.NewInt(0x4000000)) >= 0 && a.Val.Cmp(big.NewInt(0x8000000)) < 0 {
			return true
		}
		if ok, _ := isParam(b); ok && a.Val.Cmp(big.NewInt(0x10000000)) < 0 {
			return true
		}
	}
	pa, ca := isParam(a)
	pb, cb := isParam(b)
	if pa && pb && ca.Cmp(cb) != 0 {
		return true // different sub-block tags
	}
	return false
}

// freshVsEntry (block dimension of the heaps only): c is the block of an object allocated by the function under
// verification (a constant in the local or spec-temporary range) and p is a block loaded from the entry heap
// (plus a sub-block tag): nothing in the entry heap can point to an object that did not exist yet.
func freshVsEntry(c, p *Term) bool {
	if c.Op != "const" || c.Val.Cmp(big.NewInt(0x1000)) < 0 || c.Val.Cmp(big.NewInt(0x8000000)) >= 0 {
		return false
	}
	base, k := linear(p)
	if base == nil || k.Cmp(big.NewInt(4096)) >= 0 {
		return false
	}
	if base.Op == "select" && base.Args[0].Op == "select" && base.Args[0].Args[0].Op == "var" && strings.HasPrefix(base.Args[0].Args[0].Name, "H0!") {
		return true
	}
	return false
}

func Eq(a, b *Term) *Term {
	if a == b {
		return True()
	}
	if len(knownVal) > 0 {
		if v, ok := knownVal[a.id]; ok && b.Op == "const" {
			return BoolC(v.Val.Cmp(b.Val) == 0)
		}
		if v, ok := knownVal[b.id]; ok && a.Op == "const" {
			return BoolC(v.Val.Cmp(a.Val) == 0)
		}
	}
	if a.S != b.S {
		panic(fmt.Sprintf("eq sort mismatch %s vs %s (%s / %s)", a.S, b.S, a, b))
	}
	if a.Op == "const" && b.Op == "const" {
		return BoolC(a.Val.Cmp(b.Val) == 0)
	}
	if a.S == BoolS {
		if a.IsTrue() {
			return b
		}
		if b.IsTrue() {
			return a
		}
		if a.IsFalse() {
			return Not(b)
		}
		if b.IsFalse() {
			return Not(a)
		}
	}
	if knownDistinct(a, b) {
		return False()
	}
	// eq(ite(c, k1, k2), k) with constants
	if b.Op == "const" && a.Op == "ite" && (a.Args[1].Op == "const" || a.Args[2].Op == "const") {
		return Ite(a.Args[0], Eq(a.Args[1], b), Eq(a.Args[2], b))
	}
	if a.Op == "const" && b.Op == "ite" && (b.Args[1].Op == "const" || b.Args[2].Op == "const") {
		return Ite(b.Args[0], Eq(a, b.Args[1]), Eq(a, b.Args[2]))
	}
	if a.id > b.id {
		a, b = b, a
	}
	return intern(&Term{Op: "=", Args: []*Term{a, b}, S: BoolS})
}

func Neq(a, b *Term) *Term { return Not(Eq(a, b)) }

func bvbin(op string, a, b *Term, f func(x, y *big.Int, w int) *big.Int) *Term {
	if a.S != b.S {
		panic(fmt.Sprintf("%s sort mismatch %s vs %s", op, a.S, b.S))
	}
	if a.Op == "const" && b.Op == "const" && f != nil {
		r := f(a.Val, b.Val, a.S.W)
		if r != nil {
			return BVBig(r, a.S.W)
		}
	}
	return intern(&Term{Op: op, Args: []*Term{a, b}, S: a.S})
}

func isZero(t *Term) bool { return t.Op == "const" && t.Val.Sign() == 0 }

func BVAdd(a, b *Term) *Term {
	if isZero(a) {
		return b
	}
	if isZero(b) {
		return a
	}
	if a.Op == "const" && b.Op != "const" {
		a, b = b, a
	}
	// structured offsets: concat(hi, lo) + c stays a concat
	if b.Op == "const" && a.Op == "concat" && a.Args[1].Op == "const" {
		// exact: split the sum of the low part and the constant into carry-into-high and new low part
		lw := a.Args[1].S.W
		sum := new(big.Int).Add(a.Args[1].Val, b.Val)
		carry := new(big.Int).Rsh(sum, uint(lw))
		low := new(big.Int).And(sum, mask(lw))
		return Concat(BVAdd(a.Args[0], BVBig(carry, a.Args[0].S.W)), BVBig(low, lw))
	}
	if a.Op == "const" && b.Op == "const" {
		return BVBig(new(big.Int).Add(a.Val, b.Val), a.S.W)
	}
	if a.S != b.S {
		panic(fmt.Sprintf("bvadd sort mismatch %s vs %s", a.S, b.S))
	}
	// canonical sums: flatten, add the constants, order the other addends, constant outermost
	var adds []*Term
	c := new(big.Int)
	var flat func(t *Term)
	flat = func(t *Term) {
		if t.Op == "bvadd" && len(t.Args) == 2 {
			flat(t.Args[0])
			flat(t.Args[1])
			return
		}
		if t.Op == "const" {
			c.Add(c, t.Val)
			return
		}
		adds = append(adds, t)
	}
	flat(a)
	flat(b)
	sort.SliceStable(adds, func(i, j int) bool { return adds[i].id < adds[j].id })
	w := a.S.W
	c.And(c, mask(w))
	var r *Term
	for _, t := range adds {
		if r == nil {
			r = t
		} else {
			r = intern(&Term{Op: "bvadd", Args: []*Term{r, t}, S: t.S})
		}
	}
	if r == nil {
		return BVBig(c, w)
	}
	if c.Sign() != 0 {
		if r.Op == "concat" && r.Args[1].Op == "const" {
			return BVAdd(r, BVBig(c, w))
		}
		r = intern(&Term{Op: "bvadd", Args: []*Term{r, BVBig(c, w)}, S: r.S})
	}
	return r
}
func BVSub(a, b *Term) *Term {
	if isZero(b) {
		return a
	}
	if a == b {
		return BV(0, a.S.W)
	}
	if b.Op == "const" {
		return BVAdd(a, BVBig(new(big.Int).Neg(b.Val), a.S.W))
	}
	// (x + c) - x = c
	ba, ca := linear(a)
	bb, cb := linear(b)
	if ba != nil && ba == bb {
		return BVBig(new(big.Int).Sub(ca, cb), a.S.W)
	}
	return bvbin("bvsub", a, b, func(x, y *big.Int, w int) *big.Int { return new(big.Int).Sub(x, y) })
}
func BVMul(a, b *Term) *Term {
	if a.Op == "const" && b.Op != "const" {
		a, b = b, a
	}
	if b.Op == "const" && b.Val.Cmp(big.NewInt(1)) == 0 {
		return a
	}
	if isZero(b) {
		return b
	}
	return bvbin("bvmul", a, b, func(x, y *big.Int, w int) *big.Int { return new(big.Int).Mul(x, y) })
}
func BVAnd(a, b *Term) *Term {
	if a == b {
		return a
	}
	if isZero(a) {
		return a
	}
	if isZero(b) {
		return b
	}
	return bvbin("bvand", a, b, func(x, y *big.Int, w int) *big.Int { return new(big.Int).And(x, y) })
}
func BVOr(a, b *Term) *Term {
	if a == b {
		return a
	}
	if isZero(a) {
		return b
	}
	if isZero(b) {
		return a
	}
	return bvbin("bvor", a, b, func(x, y *big.Int, w int) *big.Int { return new(big.Int).Or(x, y) })
}
func BVXor(a, b *Term) *Term {
	return bvbin("bvxor", a, b, func(x, y *big.Int, w int) *big.Int { return new(big.Int).Xor(x, y) })
}
func BVNot(a *Term) *Term {
	if a.Op == "const" {
		return BVBig(new(big.Int).Xor(a.Val, mask(a.S.W)), a.S.W)
	}
	return intern(&Term{Op: "bvnot", Args: []*Term{a}, S: a.S})
}
func BVNeg(a *Term) *Term { return BVSub(BV(0, a.S.W), a) }
func BVShl(a, b *Term) *Term {
	return bvbin("bvshl", a, b, func(x, y *big.Int, w int) *big.Int {
		if y.Cmp(big.NewInt(int64(w))) >= 0 {
			return big.NewInt(0)
		}
		return new(big.Int).Lsh(x, uint(y.Uint64()))
	})
}
func BVLshr(a, b *Term) *Term {
	return bvbin("bvlshr", a, b, func(x, y *big.Int, w int) *big.Int {
		if y.Cmp(big.NewInt(int64(w))) >= 0 {
			return big.NewInt(0)
		}
		return new(big.Int).Rsh(x, uint(y.Uint64()))
	})
}
func BVAshr(a, b *Term) *Term { return bvbin("bvashr", a, b, nil) }
func BVUdiv(a, b *Term) *Term {
	return bvbin("bvudiv", a, b, func(x, y *big.Int, w int) *big.Int {
		if y.Sign() == 0 {
			return nil
		}
		return new(big.Int).Div(x, y)
	})
}
func BVUrem(a, b *Term) *Term {
	return bvbin("bvurem", a, b, func(x, y *big.Int, w int) *big.Int {
		if y.Sign() == 0 {
			return nil
		}
		return new(big.Int).Mod(x, y)
	})
}
func BVSdiv(a, b *Term) *Term { return bvbin("bvsdiv", a, b, nil) }
func BVSrem(a, b *Term) *Term { return bvbin("bvsrem", a, b, nil) }

func bvcmp(op string, a, b *Term, signed bool, f func(c int) bool) *Term {
	if a.S != b.S {
		panic(fmt.Sprintf("%s sort mismatch %s vs %s", op, a.S, b.S))
	}
	if a.Op == "const" && b.Op == "const" {
		if signed {
			return BoolC(f(a.SInt().Cmp(b.SInt())))
		}
		return BoolC(f(a.Val.Cmp(b.Val)))
	}
	if a == b {
		return BoolC(f(0))
	}
	return intern(&Term{Op: op, Args: []*Term{a, b}, S: BoolS})
}
func ULT(a, b *Term) *Term { return bvcmp("bvult", a, b, false, func(c int) bool { return c < 0 }) }
func ULE(a, b *Term) *Term { return bvcmp("bvule", a, b, false, func(c int) bool { return c <= 0 }) }
func SLT(a, b *Term) *Term { return bvcmp("bvslt", a, b, true, func(c int) bool { return c < 0 }) }
func SLE(a, b *Term) *Term { return bvcmp("bvsle", a, b, true, func(c int) bool { return c <= 0 }) }
func UGT(a, b *Term) *Term { return ULT(b, a) }
func UGE(a, b *Term) *Term { return ULE(b, a) }
func SGT(a, b *Term) *Term { return SLT(b, a) }
func SGE(a, b *Term) *Term { return SLE(b, a) }

func Extract(hi, lo int, a *Term) *Term {
	if lo == 0 && hi == a.S.W-1 {
		return a
	}
	if a.Op == "const" {
		v := new(big.Int).Rsh(a.Val, uint(lo))
		return BVBig(v, hi-lo+1)
	}
	if a.Op == "concat" {
		lw := a.Args[1].S.W
		if lo >= lw {
			return Extract(hi-lw, lo-lw, a.Args[0])
		}
		if hi < lw {
			return Extract(hi, lo, a.Args[1])
		}
	}
	if a.Op == "extract" {
		return Extract(hi+a.J, lo+a.J, a.Args[0])
	}
	// low-bit extraction distributes over addition
	if lo == 0 && a.Op == "bvadd" && len(a.Args) == 2 {
		return BVAdd(Extract(hi, 0, a.Args[0]), Extract(hi, 0, a.Args[1]))
	}
	// extract of zext/sext where we stay within original
	if (a.Op == "zext" || a.Op == "sext") && hi < a.Args[0].S.W {
		return Extract(hi, lo, a.Args[0])
	}
	return intern(&Term{Op: "extract", Args: []*Term{a}, S: BVS(hi - lo + 1), I: hi, J: lo})
}
func Concat(hi, lo *Term) *Term {
	if hi.Op == "const" && lo.Op == "const" {
		v := new(big.Int).Lsh(hi.Val, uint(lo.S.W))
		v.Or(v, lo.Val)
		return BVBig(v, hi.S.W+lo.S.W)
	}
	// concat(extract(h..k, x), extract(k-1..l, x)) = extract(h..l, x)
	if hi.Op == "extract" && lo.Op == "extract" && hi.Args[0] == lo.Args[0] && hi.J == lo.I+1 {
		return Extract(hi.I, lo.J, hi.Args[0])
	}
	return intern(&Term{Op: "concat", Args: []*Term{hi, lo}, S: BVS(hi.S.W + lo.S.W)})
}

func ZExt(a *Term, w int) *Term {
	if w == a.S.W {
		return a
	}
	if w < a.S.W {
		return Extract(w-1, 0, a)
	}
	if a.Op == "const" {
		return BVBig(a.Val, w)
	}
	if a.Op == "zext" {
		return ZExt(a.Args[0], w)
	}
	return intern(&Term{Op: "zext", Args: []*Term{a}, S: BVS(w), I: w - a.S.W})
}
func SExt(a *Term, w int) *Term {
	if w == a.S.W {
		return a
	}
	if w < a.S.W {
		return Extract(w-1, 0, a)
	}
	if a.Op == "const" {
		return BVBig(a.SInt(), w)
	}
	if a.Op == "zext" { // sign bit is zero
		return ZExt(a.Args[0], w)
	}
	return intern(&Term{Op: "sext", Args: []*Term{a}, S: BVS(w), I: w - a.S.W})
}

var selectCache = map[[2]int]*Term{}

func Select(arr, idx *Term) *Term {
	if arr.S.K != SArr {
		panic("select on non-array " + arr.S.str)
	}
	if arr.S.Idx != idx.S {
		panic(fmt.Sprintf("select index sort %s want %s", idx.S, arr.S.Idx))
	}
	key := [2]int{arr.id, idx.id}
	if r, ok := selectCache[key]; ok {
		return r
	}
	r := select1(arr, idx)
	selectCache[key] = r
	return r
}

func select1(arr, idx *Term) *Term {
	for {
		if arr.Op == "store" {
			if arr.Args[1] == idx {
				return arr.Args[2]
			}
			if knownDistinct(arr.Args[1], idx) || (idx.S.W == 32 && (freshVsEntry(arr.Args[1], idx) || freshVsEntry(idx, arr.Args[1]))) {
				arr = arr.Args[0]
				continue
			}
		}
		break
	}
	if arr.Op == "ite" {
		return Ite(arr.Args[0], Select(arr.Args[1], idx), Select(arr.Args[2], idx))
	}
	return intern(&Term{Op: "select", Args: []*Term{arr, idx}, S: arr.S.Elem})
}

func Store(arr, idx, v *Term) *Term {
	if arr.S.K != SArr || arr.S.Idx != idx.S || arr.S.Elem != v.S {
		panic(fmt.Sprintf("store sort mismatch arr=%s idx=%s val=%s", arr.S, idx.S, v.S))
	}
	if arr.Op == "store" && arr.Args[1] == idx {
		arr = arr.Args[0]
	}
	// storing back what is there
	if v.Op == "select" && v.Args[0] == arr && v.Args[1] == idx {
		return arr
	}
	return intern(&Term{Op: "store", Args: []*Term{arr, idx, v}, S: arr.S})
}

func Forall(bvs []*Term, body *Term) *Term {
	if body.IsTrue() {
		return body
	}
	return intern(&Term{Op: "forall", Args: []*Term{body}, BVs: bvs, S: BoolS})
}
func ForallPat(bvs []*Term, body *Term, pats []*Term) *Term {
	if body.IsTrue() {
		return body
	}
	return intern(&Term{Op: "forall", Args: append([]*Term{body}, pats...), BVs: bvs, S: BoolS})
}
func Exists(bvs []*Term, body *Term) *Term {
	if body.IsFalse() {
		return body
	}
	return intern(&Term{Op: "exists", Args: []*Term{body}, BVs: bvs, S: BoolS})
}

// UF application: declared once per name
type ufDecl struct {
	Name string
	Args []*Sort
	Res  *Sort
}

var ufDecls = map[string]*ufDecl{}

func UF(name string, res *Sort, args ...*Term) *Term {
	if _, ok := ufDecls[name]; !ok {
		d := &ufDecl{Name: name, Res: res}
		for _, a := range args {
			d.Args = append(d.Args, a.S)
		}
		ufDecls[name] = d
	}
	return intern(&Term{Op: "uf", Name: name, Args: args, S: res})
}

// ---------- substitution ----------

func Subst(t *Term, m map[*Term]*Term, memo map[*Term]*Term) *Term {
	if r, ok := m[t]; ok {
		return r
	}
	if len(t.Args) == 0 {
		return t
	}
	if r, ok := memo[t]; ok {
		return r
	}
	na := make([]*Term, len(t.Args))
	ch := false
	for i, a := range t.Args {
		na[i] = Subst(a, m, memo)
		if na[i] != a {
			ch = true
		}
	}
	var r *Term
	if !ch {
		r = t
	} else {
		r = rebuild(t, na)
	}
	memo[t] = r
	return r
}

func rebuild(t *Term, a []*Term) *Term {
	switch t.Op {
	case "not":
		return Not(a[0])
	case "and":
		return And(a...)
	case "or":
		return Or(a...)
	case "=>":
		return Implies(a[0], a[1])
	case "ite":
		return Ite(a[0], a[1], a[2])
	case "=":
		return Eq(a[0], a[1])
	case "bvadd":
		return BVAdd(a[0], a[1])
	case "bvsub":
		return BVSub(a[0], a[1])
	case "bvmul":
		return BVMul(a[0], a[1])
	case "bvand":
		return BVAnd(a[0], a[1])
	case "bvor":
		return BVOr(a[0], a[1])
	case "bvxor":
		return BVXor(a[0], a[1])
	case "bvnot":
		return BVNot(a[0])
	case "bvshl":
		return BVShl(a[0], a[1])
	case "bvlshr":
		return BVLshr(a[0], a[1])
	case "bvashr":
		return BVAshr(a[0], a[1])
	case "bvudiv":
		return BVUdiv(a[0], a[1])
	case "bvurem":
		return BVUrem(a[0], a[1])
	case "bvsdiv":
		return BVSdiv(a[0], a[1])
	case "bvsrem":
		return BVSrem(a[0], a[1])
	case "bvult":
		return ULT(a[0], a[1])
	case "bvule":
		return ULE(a[0], a[1])
	case "bvslt":
		return SLT(a[0], a[1])
	case "bvsle":
		return SLE(a[0], a[1])
	case "extract":
		return Extract(t.I, t.J, a[0])
	case "zext":
		return ZExt(a[0], t.S.W)
	case "sext":
		return SExt(a[0], t.S.W)
	case "concat":
		return Concat(a[0], a[1])
	case "select":
		return Select(a[0], a[1])
	case "store":
		return Store(a[0], a[1], a[2])
	case "forall":
		if len(a) > 1 {
			return ForallPat(t.BVs, a[0], a[1:])
		}
		return Forall(t.BVs, a[0])
	case "exists":
		return Exists(t.BVs, a[0])
	case "uf":
		return UF(t.Name, t.S, a...)
	}
	panic("rebuild: " + t.Op)
}

// ---------- printing ----------

func smtName(n string) string {
	ok := true
	for _, c := range n {
		if !(c >= 'a' && c <= 'z' || c >= 'A' && c <= 'Z' || c >= '0' && c <= '9' || c == '_' || c == '!' || c == '.' || c == '$' || c == '@') {
			ok = false
		}
	}
	if ok && (n[0] < '0' || n[0] > '9') {
		return n
	}
	return "|" + n + "|"
}

type printer struct {
	sb     strings.Builder
	done   map[*Term]string
	vars   map[string]*Sort
	ufs    map[string]bool
	defs   []string
	bound  map[*Term]bool
	refcnt map[*Term]int
}

func (p *printer) count(t *Term) {
	p.refcnt[t]++
	if p.refcnt[t] > 1 {
		return
	}
	for _, a := range t.Args {
		p.count(a)
	}
}

// does t contain a bound variable (then it cannot be hoisted to a define-fun)
func (p *printer) hasBound(t *Term, memo map[*Term]bool) bool {
	if len(p.bound) == 0 {
		return false
	}
	if v, ok := memo[t]; ok {
		return v
	}
	r := false
	if t.Op == "var" && p.bound[t] {
		r = true
	}
	for _, a := range t.Args {
		if p.hasBound(a, memo) {
			r = true
		}
	}
	memo[t] = r
	return r
}

func (p *printer) collectBound(t *Term, seen map[*Term]bool) {
	if seen[t] {
		return
	}
	seen[t] = true
	for _, b := range t.BVs {
		p.bound[b] = true
	}
	for _, a := range t.Args {
		p.collectBound(a, seen)
	}
}

func (p *printer) expr(t *Term, bmemo map[*Term]bool) string {
	if s, ok := p.done[t]; ok {
		return s
	}
	var s string
	switch t.Op {
	case "true", "false":
		return t.Op
	case "const":
		w := t.S.W
		if w%4 == 0 {
			return fmt.Sprintf("#x%0*s", w/4, t.Val.Text(16))
		}
		return fmt.Sprintf("#b%0*s", w, t.Val.Text(2))
	case "var":
		if !p.bound[t] {
			p.vars[t.Name] = t.S
		}
		return smtName(t.Name)
	case "extract":
		s = fmt.Sprintf("((_ extract %d %d) %s)", t.I, t.J, p.expr(t.Args[0], bmemo))
	case "zext":
		s = fmt.Sprintf("((_ zero_extend %d) %s)", t.I, p.expr(t.Args[0], bmemo))
	case "sext":
		s = fmt.Sprintf("((_ sign_extend %d) %s)", t.I, p.expr(t.Args[0], bmemo))
	case "forall", "exists":
		var bs []string
		for _, b := range t.BVs {
			bs = append(bs, fmt.Sprintf("(%s %s)", smtName(b.Name), b.S))
		}
		// shared subterms that mention bound variables cannot be hoisted to define-funs: bind them with let
		cnt := map[*Term]int{}
		var order []*Term
		var walk func(u *Term)
		walk = func(u *Term) {
			if !p.hasBound(u, bmemo) || u.Op == "var" || u.Op == "forall" || u.Op == "exists" {
				return // nested quantifiers bind their own shared subterms
			}
			cnt[u]++
			if cnt[u] > 1 {
				return
			}
			for _, a := range u.Args {
				walk(a)
			}
			order = append(order, u)
		}
		walk(t.Args[0])
		var scoped []*Term
		var lets []string
		for _, u := range order {
			if cnt[u] > 1 && u != t.Args[0] {
				if _, ok := p.done[u]; ok {
					continue
				}
				e := p.expr(u, bmemo)
				if len(e) < 24 {
					continue
				}
				n := fmt.Sprintf("l!%d", u.id)
				lets = append(lets, fmt.Sprintf("(let ((%s %s)) ", n, e))
				p.done[u] = n
				scoped = append(scoped, u)
			}
		}
		body := p.expr(t.Args[0], bmemo)
		if len(t.Args) > 1 {
			var ps []string
			for _, a := range t.Args[1:] {
				ps = append(ps, p.expr(a, bmemo))
			}
			body = fmt.Sprintf("(! %s :pattern (%s))", body, strings.Join(ps, " "))
		}
		s = fmt.Sprintf("(%s (%s) %s%s%s)", t.Op, strings.Join(bs, " "), strings.Join(lets, ""), body, strings.Repeat(")", len(lets)))
		// let names and everything printed inside (which may mention them) are only valid inside this quantifier
		for _, u := range order {
			delete(p.done, u)
		}
		for _, u := range scoped {
			delete(p.done, u)
		}
		delete(p.done, t.Args[0])
		return s
	case "uf":
		p.ufs[t.Name] = true
		if len(t.Args) == 0 {
			s = smtName(t.Name)
		} else {
			var as []string
			for _, a := range t.Args {
				as = append(as, p.expr(a, bmemo))
			}
			s = fmt.Sprintf("(%s %s)", smtName(t.Name), strings.Join(as, " "))
		}
	default:
		var as []string
		for _, a := range t.Args {
			as = append(as, p.expr(a, bmemo))
		}
		s = fmt.Sprintf("(%s %s)", t.Op, strings.Join(as, " "))
	}
	if p.refcnt[t] > 1 && len(s) > 24 && !p.hasBound(t, bmemo) {
		n := fmt.Sprintf("t!%d", t.id)
		p.defs = append(p.defs, fmt.Sprintf("(define-fun %s () %s %s)", n, t.S, s))
		p.done[t] = n
		return n
	}
	p.done[t] = s
	return s
}

// SMTQuery renders: declarations, definitions, asserts for each of assumptions, and assert(not goal).
// extra: lines appended after the asserts (e.g. check-sat, get-value).
func SMTQuery(assumptions []*Term, goal *Term, header []string, footer []string) string {
	p := &printer{done: map[*Term]string{}, vars: map[string]*Sort{}, ufs: map[string]bool{}, bound: map[*Term]bool{}, refcnt: map[*Term]int{}}
	seen := map[*Term]bool{}
	all := append([]*Term{}, assumptions...)
	if goal != nil {
		all = append(all, goal)
	}
	for _, a := range all {
		p.collectBound(a, seen)
		p.count(a)
	}
	bmemo := map[*Term]bool{}
	var asserts []string
	for _, a := range assumptions {
		if a.IsTrue() {
			continue
		}
		asserts = append(asserts, fmt.Sprintf("(assert %s)", p.expr(a, bmemo)))
	}
	if goal != nil {
		asserts = append(asserts, fmt.Sprintf("(assert (not %s))", p.expr(goal, bmemo)))
	}
	var sb strings.Builder
	for _, h := range header {
		sb.WriteString(h)
		sb.WriteByte('\n')
	}
	var names []string
	for n := range p.vars {
		names = append(names, n)
	}
	sort.Strings(names)
	for _, n := range names {
		fmt.Fprintf(&sb, "(declare-const %s %s)\n", smtName(n), p.vars[n])
	}
	names = nil
	for n := range p.ufs {
		names = append(names, n)
	}
	sort.Strings(names)
	for _, n := range names {
		d := ufDecls[n]
		var as []string
		for _, a := range d.Args {
			as = append(as, a.str)
		}
		fmt.Fprintf(&sb, "(declare-fun %s (%s) %s)\n", smtName(n), strings.Join(as, " "), d.Res)
	}
	for _, d := range p.defs {
		sb.WriteString(d)
		sb.WriteByte('\n')
	}
	for _, a := range asserts {
		sb.WriteString(a)
		sb.WriteByte('\n')
	}
	for _, f := range footer {
		sb.WriteString(f)
		sb.WriteByte('\n')
	}
	return sb.String()
}

func (t *Term) String() string {
	p := &printer{done: map[*Term]string{}, vars: map[string]*Sort{}, ufs: map[string]bool{}, bound: map[*Term]bool{}, refcnt: map[*Term]int{}}
	s := p.expr(t, map[*Term]bool{})
	if len(s) > 400 {
		s = s[:400] + "..."
	}
	return s
}

// collect free variables of a term
func freeVars(t *Term, out map[*Term]bool, seen map[*Term]bool) {
	if seen[t] {
		return
	}
	seen[t] = true
	if t.Op == "var" {
		out[t] = true
	}
	for _, a := range t.Args {
		freeVars(a, out, seen)
	}
}
