package main

// Contract file parsing (//@ lines) and desugaring of the expression language
// into plain Go (==>, <==>, forall/exists sugar).

import (
	"bytes"
	"fmt"
	"go/ast"
	"go/parser"
	goprinter "go/printer"
	"go/token"
	"regexp"
	"strconv"
	"strings"
)

type Clause struct {
	Kind string   // requires ensures invariant decreases modifies law lemma
	Tags []string // property ids; empty = support clause
	Text string   // raw expression text
	Line int      // line in contract file
	Ord  int      // ordinal among clauses of this kind in the block (1-based)
	Name string   // optional label: ensures[C10] "label": expr   (label used in obligation names)
	Lo, Hi int    // for cases clauses
}

type LoopContract struct {
	Ord     int
	Header  string
	Invs    []*Clause
	Dec     *Clause
	Unroll  int
	Line    int
	Havoc   []string // extra cells to havoc (rare)
	Lemmas  []*Clause
	Splits  []*Clause
}

type FuncContract struct {
	Key      string // function key as in ssa RelString, e.g. ParseCSeqVal, (*PField).Set, ParseHdrLine$1
	Params   []string
	Results  []string
	Requires []*Clause
	Ensures  []*Clause
	Modifies []*Clause
	Keeps    []string
	Loops    []*LoopContract
	Laws     []*Clause
	Lemmas   []*Clause
	Splits   []*Clause
	Inline   bool // never use the contract at call sites; inline the body (only loop-free)
	Trusted  bool // contract assumed, body not verified (listed in evidence)
	Pure     bool // no heap writes at all
	Uninterp bool // specification function treated as uninterpreted; its ensures clauses are its axioms
	RelPos   []string // "buf a b": a and b are positions inside slice buf (passed to the UF as absolute positions)
	Line     int
	File     string
}

var kwRe = regexp.MustCompile(`^(func|requires|ensures|invariant|decreases|modifies|keeps|loop|law|lemma|unroll|inline|trusted|pure|havoc|split|cases|uninterpreted)\b`)
var tagRe = regexp.MustCompile(`^\[([A-Za-z0-9_, *]+)\]`)
var labelRe = regexp.MustCompile(`^"([^"]*)"\s*:`)

func parseContracts(file string, src []byte) ([]*FuncContract, error) {
	var out []*FuncContract
	var cur *FuncContract
	var curLoop *LoopContract
	var last *Clause
	lines := strings.Split(string(src), "\n")
	for ln, raw := range lines {
		l := strings.TrimSpace(raw)
		if !strings.HasPrefix(l, "//@") {
			last = nil
			continue
		}
		l = strings.TrimSpace(l[3:])
		if l == "" {
			continue
		}
		m := kwRe.FindString(l)
		if m == "" {
			if last == nil {
				return nil, fmt.Errorf("%s:%d: continuation line without clause", file, ln+1)
			}
			last.Text += " " + l
			continue
		}
		rest := strings.TrimSpace(l[len(m):])
		var tags []string
		if tm := tagRe.FindStringSubmatch(rest); tm != nil {
			for _, t := range strings.Split(tm[1], ",") {
				tags = append(tags, strings.TrimSpace(t))
			}
			rest = strings.TrimSpace(rest[len(tm[0]):])
		}
		label := ""
		if lm := labelRe.FindStringSubmatch(rest); lm != nil {
			label = lm[1]
			rest = strings.TrimSpace(rest[len(lm[0]):])
		}
		cl := &Clause{Kind: m, Tags: tags, Text: rest, Line: ln + 1, Name: label}
		switch m {
		case "func":
			fc, err := parseFuncHeader(rest)
			if err != nil {
				return nil, fmt.Errorf("%s:%d: %v", file, ln+1, err)
			}
			fc.Line = ln + 1
			fc.File = file
			out = append(out, fc)
			cur = fc
			curLoop = nil
			last = nil
			continue
		}
		if cur == nil {
			return nil, fmt.Errorf("%s:%d: clause outside func block", file, ln+1)
		}
		last = cl
		switch m {
		case "requires":
			cl.Ord = len(cur.Requires) + 1
			cur.Requires = append(cur.Requires, cl)
			curLoop = nil
		case "ensures":
			cl.Ord = len(cur.Ensures) + 1
			cur.Ensures = append(cur.Ensures, cl)
			curLoop = nil
		case "modifies":
			cl.Ord = len(cur.Modifies) + 1
			cur.Modifies = append(cur.Modifies, cl)
		case "keeps":
			// keeps p.f: a slice-typed place inside the modifies set that the function writes but restores;
			// callers keep its value across the call. Justified by an automatically added postcondition.
			for _, it := range strings.Split(cl.Text, ",") {
				it = strings.TrimSpace(it)
				if it == "" {
					continue
				}
				cur.Keeps = append(cur.Keeps, it)
				i := 0
				for i < len(it) && (it[i] == '_' || it[i] >= 'a' && it[i] <= 'z' || it[i] >= 'A' && it[i] <= 'Z' || it[i] >= '0' && it[i] <= '9') {
					i++
				}
				ec := *cl
				ec.Kind = "ensures"
				ec.Name = "keeps-" + it
				ec.Text = "sameSlice(" + it + ", " + it[:i] + "_old" + it[i:] + ")"
				ec.Ord = len(cur.Ensures) + 1
				ec.Tags = nil
				cur.Ensures = append(cur.Ensures, &ec)
			}
		case "law":
			cl.Ord = len(cur.Laws) + 1
			cur.Laws = append(cur.Laws, cl)
		case "lemma":
			if curLoop != nil {
				curLoop.Lemmas = append(curLoop.Lemmas, cl)
			} else {
				cur.Lemmas = append(cur.Lemmas, cl)
			}
		case "split":
			if curLoop != nil {
				cl.Ord = len(curLoop.Splits) + 1
				curLoop.Splits = append(curLoop.Splits, cl)
			} else {
				cl.Ord = len(cur.Splits) + 1
				cur.Splits = append(cur.Splits, cl)
			}
		case "cases":
			// cases <expr> <lo> <hi>: one case per value lo..hi of expr, plus one for "none of them"
			f := strings.Fields(rest)
			if len(f) < 3 {
				return nil, fmt.Errorf("%s:%d: cases <expr> <lo> <hi>", file, ln+1)
			}
			lo, err1 := strconv.Atoi(f[len(f)-2])
			hi, err2 := strconv.Atoi(f[len(f)-1])
			if err1 != nil || err2 != nil || hi < lo || hi-lo > 70 {
				return nil, fmt.Errorf("%s:%d: bad cases range", file, ln+1)
			}
			cl.Text = strings.Join(f[:len(f)-2], " ")
			cl.Lo, cl.Hi = lo, hi
			if curLoop != nil {
				cl.Ord = len(curLoop.Splits) + 1
				curLoop.Splits = append(curLoop.Splits, cl)
			} else {
				cl.Ord = len(cur.Splits) + 1
				cur.Splits = append(cur.Splits, cl)
			}
		case "inline":
			cur.Inline = true
			last = nil
		case "trusted":
			cur.Trusted = true
			last = nil
		case "pure":
			cur.Pure = true
			last = nil
		case "uninterpreted":
			cur.Uninterp = true
			cur.Trusted = true
			cur.RelPos = strings.Fields(rest)
			last = nil
		case "loop":
			f := strings.SplitN(rest, " ", 2)
			n, err := strconv.Atoi(f[0])
			if err != nil {
				return nil, fmt.Errorf("%s:%d: loop ordinal: %v", file, ln+1, err)
			}
			lc := &LoopContract{Ord: n, Line: ln + 1}
			if len(f) > 1 {
				h := strings.TrimSpace(f[1])
				if len(h) >= 2 && h[0] == '"' && h[len(h)-1] == '"' {
					h = h[1 : len(h)-1]
				}
				lc.Header = h
			}
			cur.Loops = append(cur.Loops, lc)
			curLoop = lc
			last = nil
		case "invariant":
			if curLoop == nil {
				return nil, fmt.Errorf("%s:%d: invariant outside loop", file, ln+1)
			}
			cl.Ord = len(curLoop.Invs) + 1
			curLoop.Invs = append(curLoop.Invs, cl)
		case "decreases":
			if curLoop == nil {
				return nil, fmt.Errorf("%s:%d: decreases outside loop", file, ln+1)
			}
			curLoop.Dec = cl
		case "unroll":
			if curLoop == nil {
				return nil, fmt.Errorf("%s:%d: unroll outside loop", file, ln+1)
			}
			n, err := strconv.Atoi(rest)
			if err != nil {
				return nil, fmt.Errorf("%s:%d: unroll: %v", file, ln+1, err)
			}
			curLoop.Unroll = n
			last = nil
		case "havoc":
			if curLoop == nil {
				return nil, fmt.Errorf("%s:%d: havoc outside loop", file, ln+1)
			}
			for _, h := range strings.Split(rest, ",") {
				curLoop.Havoc = append(curLoop.Havoc, strings.TrimSpace(h))
			}
			last = nil
		}
	}
	return out, nil
}

var hdrRe = regexp.MustCompile(`^(\S+?)\(([^)]*)\)\s*(?:\(([^)]*)\))?\s*$`)

func parseFuncHeader(s string) (*FuncContract, error) {
	// forms: Name(a, b) (r1, r2)   or   (*T).M(recv, a) (r)   or  (T).M(recv)
	key := ""
	rest := s
	if strings.HasPrefix(s, "(") {
		i := strings.Index(s, ").")
		if i < 0 {
			return nil, fmt.Errorf("bad method header %q", s)
		}
		j := strings.Index(s[i+2:], "(")
		if j < 0 {
			return nil, fmt.Errorf("bad method header %q", s)
		}
		key = s[:i+2+j]
		rest = "X" + s[i+2+j:]
	}
	m := hdrRe.FindStringSubmatch(rest)
	if m == nil {
		return nil, fmt.Errorf("bad func header %q", s)
	}
	if key == "" {
		key = m[1]
	}
	fc := &FuncContract{Key: key}
	split := func(x string) []string {
		var r []string
		for _, p := range strings.Split(x, ",") {
			p = strings.TrimSpace(p)
			if p != "" {
				r = append(r, p)
			}
		}
		return r
	}
	fc.Params = split(m[2])
	fc.Results = split(m[3])
	return fc, nil
}

// ---------- expression desugaring ----------

// desugar rewrites ==> and <==> into Go boolean operators, respecting grouping.
func desugarImp(s string) string {
	// split into top-level pieces by , and ; while recursing into groups
	type item struct {
		text  string
		group bool
	}
	var pieces []string // separated pieces with separators kept
	var seps []string
	var cur strings.Builder
	i := 0
	n := len(s)
	for i < n {
		c := s[i]
		switch {
		case c == '\'' || c == '"' || c == '`':
			j := i + 1
			for j < n && s[j] != c {
				if s[j] == '\\' && c != '`' {
					j++
				}
				j++
			}
			if j >= n {
				j = n - 1
			}
			cur.WriteString(s[i : j+1])
			i = j + 1
		case c == '(' || c == '[' || c == '{':
			closer := map[byte]byte{'(': ')', '[': ']', '{': '}'}[c]
			depth := 1
			j := i + 1
			for j < n && depth > 0 {
				d := s[j]
				if d == '\'' || d == '"' || d == '`' {
					k := j + 1
					for k < n && s[k] != d {
						if s[k] == '\\' && d != '`' {
							k++
						}
						k++
					}
					j = k + 1
					continue
				}
				if d == c {
					depth++
				} else if d == closer {
					depth--
				}
				j++
			}
			inner := s[i+1 : j-1]
			cur.WriteByte(c)
			cur.WriteString(desugarImp(inner))
			cur.WriteByte(closer)
			i = j
		case c == ',' || c == ';':
			pieces = append(pieces, cur.String())
			seps = append(seps, string(c))
			cur.Reset()
			i++
		default:
			cur.WriteByte(c)
			i++
		}
	}
	pieces = append(pieces, cur.String())
	var out strings.Builder
	for k, p := range pieces {
		out.WriteString(desugarPiece(p))
		if k < len(seps) {
			out.WriteString(seps[k])
		}
	}
	return out.String()
}

// splitTop splits s at top-level occurrences of op (groups already contain no top-level ops
// that matter because desugarImp processed inner groups first; we must still skip groups).
func splitTop(s, op string) []string {
	var parts []string
	depth := 0
	start := 0
	i := 0
	for i < len(s) {
		c := s[i]
		if c == '\'' || c == '"' || c == '`' {
			j := i + 1
			for j < len(s) && s[j] != c {
				if s[j] == '\\' && c != '`' {
					j++
				}
				j++
			}
			i = j + 1
			continue
		}
		if c == '(' || c == '[' || c == '{' {
			depth++
		} else if c == ')' || c == ']' || c == '}' {
			depth--
		} else if depth == 0 && strings.HasPrefix(s[i:], op) {
			// make sure "==>" is not part of "<==>"
			if op == "==>" && i > 0 && s[i-1] == '<' {
				i++
				continue
			}
			parts = append(parts, s[start:i])
			i += len(op)
			start = i
			continue
		}
		i++
	}
	parts = append(parts, s[start:])
	return parts
}

func desugarPiece(p string) string {
	if !strings.Contains(p, "==>") {
		return p
	}
	// keep a leading "return " out of the way
	lead := ""
	tp := strings.TrimLeft(p, " \t")
	if strings.HasPrefix(tp, "return ") {
		lead = "return "
		p = tp[len("return "):]
	}
	iff := splitTop(p, "<==>")
	if len(iff) > 2 {
		panic("chained <==> not supported: " + p)
	}
	imp := func(x string) string {
		parts := splitTop(x, "==>")
		r := parts[len(parts)-1]
		for k := len(parts) - 2; k >= 0; k-- {
			r = "(!(" + parts[k] + ") || (" + r + "))"
		}
		return r
	}
	if len(iff) == 2 {
		return lead + "((" + imp(iff[0]) + ") == (" + imp(iff[1]) + "))"
	}
	return lead + imp(iff[0])
}

// sugarQuant turns forall(k, lo, hi, P) into forall(lo, hi, func(k int) bool { return P }).
func sugarQuant(e ast.Expr) ast.Expr {
	var rec func(n ast.Node) bool
	rec = func(n ast.Node) bool {
		ce, ok := n.(*ast.CallExpr)
		if !ok {
			return true
		}
		id, ok := ce.Fun.(*ast.Ident)
		if !ok || (id.Name != "forall" && id.Name != "exists") || len(ce.Args) != 4 {
			return true
		}
		kv, ok := ce.Args[0].(*ast.Ident)
		if !ok {
			return true
		}
		body := ce.Args[3]
		fl := &ast.FuncLit{
			Type: &ast.FuncType{
				Params:  &ast.FieldList{List: []*ast.Field{{Names: []*ast.Ident{ast.NewIdent(kv.Name)}, Type: ast.NewIdent("int")}}},
				Results: &ast.FieldList{List: []*ast.Field{{Type: ast.NewIdent("bool")}}},
			},
			Body: &ast.BlockStmt{List: []ast.Stmt{&ast.ReturnStmt{Results: []ast.Expr{body}}}},
		}
		ce.Args = []ast.Expr{ce.Args[1], ce.Args[2], fl}
		return true
	}
	ast.Inspect(e, rec)
	return e
}

// goExpr converts contract expression text to Go source text and reports identifiers used.
func goExpr(text string) (string, map[string]bool, error) {
	ds := desugarImp(text)
	e, err := parser.ParseExpr(ds)
	if err != nil {
		return "", nil, fmt.Errorf("parse %q: %v", ds, err)
	}
	e = sugarQuant(e)
	ids := map[string]bool{}
	ast.Inspect(e, func(n ast.Node) bool {
		if se, ok := n.(*ast.SelectorExpr); ok {
			// only the root of a selector chain is a free identifier
			ast.Inspect(se.X, func(m ast.Node) bool {
				if id, ok := m.(*ast.Ident); ok {
					ids[id.Name] = true
				}
				return true
			})
			return false
		}
		if id, ok := n.(*ast.Ident); ok {
			ids[id.Name] = true
		}
		return true
	})
	// selector roots inside call args etc. were handled by the nested Inspect above only for the X part;
	// walk again for everything that is not a selector's Sel.
	ast.Inspect(e, func(n ast.Node) bool {
		switch x := n.(type) {
		case *ast.SelectorExpr:
			_ = x
			return true
		case *ast.Ident:
			ids[x.Name] = true
		}
		return true
	})
	var buf bytes.Buffer
	if err := goprinter.Fprint(&buf, token.NewFileSet(), e); err != nil {
		return "", nil, err
	}
	return buf.String(), ids, nil
}
