package main

// Flattening of Go types into cells (one scalar SMT term per cell).

import (
	"fmt"
	"go/types"
)

type Layout struct {
	Sorts []*Sort
}

var layoutCache = map[types.Type]*Layout{}

func cellsOf(t types.Type) []*Sort {
	if l, ok := layoutCache[t]; ok {
		return l.Sorts
	}
	var out []*Sort
	switch u := t.Underlying().(type) {
	case *types.Basic:
		switch u.Kind() {
		case types.Bool, types.UntypedBool:
			out = []*Sort{BoolS}
		case types.Int8, types.Uint8:
			out = []*Sort{BV8}
		case types.Int16, types.Uint16:
			out = []*Sort{BV16}
		case types.Int32, types.Uint32, types.UntypedRune:
			out = []*Sort{BV32}
		case types.Int, types.Uint, types.Int64, types.Uint64, types.Uintptr, types.UntypedInt:
			out = []*Sort{BV64}
		case types.String, types.UntypedString:
			out = []*Sort{BV32, BV64, BV64}
		case types.UnsafePointer:
			out = []*Sort{BV32, BV64}
		case types.UntypedNil:
			out = []*Sort{BV32, BV64}
		case types.Float32, types.Float64, types.UntypedFloat:
			out = []*Sort{BV64}
		default:
			panic(fmt.Sprintf("cellsOf: unsupported basic %v", u))
		}
	case *types.Pointer:
		out = []*Sort{BV32, BV64}
	case *types.Slice:
		out = []*Sort{BV32, BV64, BV64, BV64}
	case *types.Interface:
		out = []*Sort{BV32, BV32, BV64}
	case *types.Signature:
		out = []*Sort{BV64}
	case *types.Map, *types.Chan:
		out = []*Sort{BV32, BV64}
	case *types.Array:
		el := cellsOf(u.Elem())
		for i := int64(0); i < u.Len(); i++ {
			out = append(out, el...)
		}
	case *types.Struct:
		for i := 0; i < u.NumFields(); i++ {
			out = append(out, cellsOf(u.Field(i).Type())...)
		}
	case *types.Tuple:
		for i := 0; i < u.Len(); i++ {
			out = append(out, cellsOf(u.At(i).Type())...)
		}
	default:
		panic(fmt.Sprintf("cellsOf: unsupported type %v (%T)", t, u))
	}
	layoutCache[t] = &Layout{Sorts: out}
	return out
}

func sizeOf(t types.Type) int { return len(cellsOf(t)) }

func fieldOffset(st *types.Struct, idx int) int {
	off := 0
	for i := 0; i < idx; i++ {
		off += sizeOf(st.Field(i).Type())
	}
	return off
}

func tupleOffset(tp *types.Tuple, idx int) int {
	off := 0
	for i := 0; i < idx; i++ {
		off += sizeOf(tp.At(i).Type())
	}
	return off
}

func isSigned(t types.Type) bool {
	b, ok := t.Underlying().(*types.Basic)
	if !ok {
		return false
	}
	return b.Info()&types.IsInteger != 0 && b.Info()&types.IsUnsigned == 0
}

func isInteger(t types.Type) bool {
	b, ok := t.Underlying().(*types.Basic)
	return ok && b.Info()&types.IsInteger != 0
}

func isString(t types.Type) bool {
	b, ok := t.Underlying().(*types.Basic)
	return ok && b.Info()&types.IsString != 0
}

// cellPath describes a cell of a type in source terms (for models): ".CSeq.Offs", "[3].Name.Len", ".Hdrs#len"
func cellPaths(t types.Type, prefix string, out *[]string) {
	switch u := t.Underlying().(type) {
	case *types.Basic:
		if isString(t) {
			*out = append(*out, prefix+"#blk", prefix+"#off", prefix+"#len")
			return
		}
		*out = append(*out, prefix)
	case *types.Pointer:
		*out = append(*out, prefix+"#blk", prefix+"#off")
	case *types.Slice:
		*out = append(*out, prefix+"#blk", prefix+"#off", prefix+"#len", prefix+"#cap")
	case *types.Interface:
		*out = append(*out, prefix+"#typ", prefix+"#blk", prefix+"#off")
	case *types.Array:
		for i := int64(0); i < u.Len(); i++ {
			cellPaths(u.Elem(), fmt.Sprintf("%s[%d]", prefix, i), out)
		}
	case *types.Struct:
		for i := 0; i < u.NumFields(); i++ {
			cellPaths(u.Field(i).Type(), prefix+"."+u.Field(i).Name(), out)
		}
	default:
		*out = append(*out, prefix)
	}
}

// ---- memory layout: cell offsets inside objects ----
//
// A value is a dense vector of cells (cellsOf). In memory, array and slice elements are placed
// at a stride that is a power of two, so that element addressing is a shift and the solvers
// never see a multiplication by 6 or 24.

var offsCache = map[types.Type][]int{}
var spanCache = map[types.Type]int{}

func pow2ceil(n int) int {
	p := 1
	for p < n {
		p <<= 1
	}
	return p
}

// strideOf: distance between consecutive elements of type t in an array or slice
func strideOf(t types.Type) int { return pow2ceil(spanOf(t)) }

// spanOf: number of memory offsets an object of type t occupies
func spanOf(t types.Type) int {
	if v, ok := spanCache[t]; ok {
		return v
	}
	memOffsOf(t)
	return spanCache[t]
}

// memOffsOf: memory offset of every cell of t (same order as cellsOf)
func memOffsOf(t types.Type) []int {
	if v, ok := offsCache[t]; ok {
		return v
	}
	var out []int
	span := 0
	switch u := t.Underlying().(type) {
	case *types.Array:
		st := strideOf(u.Elem())
		eo := memOffsOf(u.Elem())
		for i := 0; i < int(u.Len()); i++ {
			for _, o := range eo {
				out = append(out, i*st+o)
			}
		}
		span = int(u.Len()) * st
	case *types.Struct:
		base := 0
		for i := 0; i < u.NumFields(); i++ {
			ft := u.Field(i).Type()
			al := alignOf(ft)
			base = (base + al - 1) / al * al
			for _, o := range memOffsOf(ft) {
				out = append(out, base+o)
			}
			base += spanOf(ft)
		}
		al := alignOf(t)
		span = (base + al - 1) / al * al
	case *types.Tuple:
		base := 0
		for i := 0; i < u.Len(); i++ {
			ft := u.At(i).Type()
			for _, o := range memOffsOf(ft) {
				out = append(out, base+o)
			}
			base += spanOf(ft)
		}
		span = base
	default:
		n := len(cellsOf(t))
		for i := 0; i < n; i++ {
			out = append(out, i)
		}
		span = n
	}
	offsCache[t] = out
	spanCache[t] = span
	return out
}

func fieldMemOffset(st *types.Struct, idx int) int {
	off := 0
	for i := 0; i <= idx; i++ {
		ft := st.Field(i).Type()
		al := alignOf(ft)
		off = (off + al - 1) / al * al
		if i == idx {
			break
		}
		off += spanOf(ft)
	}
	return off
}

var alignCache = map[types.Type]int{}

// alignOf: objects are placed at offsets that are multiples of the largest element stride of the
// arrays they contain, so that element addresses are concat(index part, field part).
func alignOf(t types.Type) int {
	if v, ok := alignCache[t]; ok {
		return v
	}
	a := 1
	switch u := t.Underlying().(type) {
	case *types.Array:
		a = strideOf(u.Elem())
		if e := alignOf(u.Elem()); e > a {
			a = e
		}
	case *types.Struct:
		for i := 0; i < u.NumFields(); i++ {
			if e := alignOf(u.Field(i).Type()); e > a {
				a = e
			}
		}
	}
	alignCache[t] = a
	return a
}

func log2(n int) int {
	k := 0
	for (1 << k) < n {
		k++
	}
	return k
}

// ---- sub-blocks ----
//
// Cells that belong to an array-typed struct field live in block (blk + depth) at their natural
// offset, where depth counts the array fields on the path from the root object. A pointer into such
// a field therefore never shares a block with the scalar fields of the enclosing object, and the
// solver separates them by block identity instead of by offset arithmetic. Root blocks are multiples of 16.

var tagCache = map[types.Type][]int{}

func memTagsOf(t types.Type) []int {
	if v, ok := tagCache[t]; ok {
		return v
	}
	var out []int
	switch u := t.Underlying().(type) {
	case *types.Array:
		et := memTagsOf(u.Elem())
		for i := 0; i < int(u.Len()); i++ {
			out = append(out, et...)
		}
	case *types.Struct:
		for i := 0; i < u.NumFields(); i++ {
			ft := u.Field(i).Type()
			ts := memTagsOf(ft)
			if ownBlock(ft) {
				tg := fieldTag(t, i)
				for _, x := range ts {
					out = append(out, x+tg)
				}
			} else {
				out = append(out, ts...)
			}
		}
	case *types.Tuple:
		for i := 0; i < u.Len(); i++ {
			out = append(out, memTagsOf(u.At(i).Type())...)
		}
	default:
		n := len(cellsOf(t))
		for i := 0; i < n; i++ {
			out = append(out, 0)
		}
	}
	tagCache[t] = out
	return out
}

func maxTagOf(t types.Type) int {
	m := 0
	for _, x := range memTagsOf(t) {
		if x > m {
			m = x
		}
	}
	return m
}

// fieldTag: the sub-block number of an array-typed field, distinct for every (struct type, field) so that
// different embedded arrays of one object never share a block (at most 62 such fields; nested ones add up).
var fieldTags = map[string]int{}

func fieldTag(structT types.Type, field int) int {
	k := fmt.Sprintf("%s#%d", types.TypeString(structT, nil), field)
	if t, ok := fieldTags[k]; ok {
		return t
	}
	t := len(fieldTags)%60 + 1
	fieldTags[k] = t
	return t
}

// ownBlock: fields of array type, and struct-typed fields that are themselves parser objects (eight cells or
// more), live in a sub-block of their own
func ownBlock(ft types.Type) bool {
	switch ft.Underlying().(type) {
	case *types.Array:
		return true
	case *types.Struct:
		return spanOf(ft) >= 8
	}
	return false
}
