package main

// Flattening of Go types into cells (one scalar SMT term per cell).

import (
	"fmt"
	"go/types"
)

type Layout struct {
	Sorts []*Sort
}

var layoutCache = map[types.Type]*Layout{}

func cellsOf(t types.Type) []*Sort {
	if l, ok := layoutCache[t]; ok {
		return l.Sorts
	}
	var out []*Sort
	switch u := t.Underlying().(type) {
	case *types.Basic:
		switch u.Kind() {
		case types.Bool, types.UntypedBool:
			out = []*Sort{BoolS}
		case types.Int8, types.Uint8:
			out = []*Sort{BV8}
		case types.Int16, types.Uint16:
			out = []*Sort{BV16}
		case types.Int32, types.Uint32, types.UntypedRune:
			out = []*Sort{BV32}
		case types.Int, types.Uint, types.Int64, types.Uint64, types.Uintptr, types.UntypedInt:
			out = []*Sort{BV64}
		case types.String, types.UntypedString:
			out = []*Sort{BV32, BV64, BV64}
		case types.UnsafePointer:
			out = []*Sort{BV32, BV64}
		case types.UntypedNil:
			out = []*Sort{BV32, BV64}
		case types.Float32, types.Float64, types.UntypedFloat:
			out = []*Sort{BV64}
		default:
			panic(fmt.Sprintf("cellsOf: unsupported basic %v", u))
		}
	case *types.Pointer:
		out = []*Sort{BV32, BV64}
	case *types.Slice:
		out = []*Sort{BV32, BV64, BV64, BV64}
	case *types.Interface:
		out = []*Sort{BV32, BV32, BV64}
	case *types.Signature:
		out = []*Sort{BV64}
	case *types.Map, *types.Chan:
		out = []*Sort{BV32, BV64}
	case *types.Array:
		el := cellsOf(u.Elem())
		for i := int64(0); i < u.Len(); i++ {
			out = append(out, el...)
		}
	case *types.Struct:
		for i := 0; i < u.NumFields(); i++ {
			out = append(out, cellsOf(u.Field(i).Type())...)
		}
	case *types.Tuple:
		for i := 0; i < u.Len(); i++ {
			out = append(out, cellsOf(u.At(i).Type())...)
		}
	default:
		panic(fmt.Sprintf("cellsOf: unsupported type %v (%T)", t, u))
	}
	layoutCache[t] = &Layout{Sorts: out}
	return out
}

func sizeOf(t types.Type) int { return len(cellsOf(t)) }

func fieldOffset(st *types.Struct, idx int) int {
	off := 0
	for i := 0; i < idx; i++ {
		off += sizeOf(st.Field(i).Type())
	}
	return off
}

func tupleOffset(tp *types.Tuple, idx int) int {
	off := 0
	for i := 0; i < idx; i++ {
		off += sizeOf(tp.At(i).Type())
	}
	return off
}

func isSigned(t types.Type) bool {
	b, ok := t.Underlying().(*types.Basic)
	if !ok {
		return false
	}
	return b.Info()&types.IsInteger != 0 && b.Info()&types.IsUnsigned == 0
}

func isInteger(t types.Type) bool {
	b, ok := t.Underlying().(*types.Basic)
	return ok && b.Info()&types.IsInteger != 0
}

func isString(t types.Type) bool {
	b, ok := t.Underlying().(*types.Basic)
	return ok && b.Info()&types.IsString != 0
}

// cellPath describes a cell of a type in source terms (for models): ".CSeq.Offs", "[3].Name.Len", ".Hdrs#len"
func cellPaths(t types.Type, prefix string, out *[]string) {
	switch u := t.Underlying().(type) {
	case *types.Basic:
		if isString(t) {
			*out = append(*out, prefix+"#blk", prefix+"#off", prefix+"#len")
			return
		}
		*out = append(*out, prefix)
	case *types.Pointer:
		*out = append(*out, prefix+"#blk", prefix+"#off")
	case *types.Slice:
		*out = append(*out, prefix+"#blk", prefix+"#off", prefix+"#len", prefix+"#cap")
	case *types.Interface:
		*out = append(*out, prefix+"#typ", prefix+"#blk", prefix+"#off")
	case *types.Array:
		for i := int64(0); i < u.Len(); i++ {
			cellPaths(u.Elem(), fmt.Sprintf("%s[%d]", prefix, i), out)
		}
	case *types.Struct:
		for i := 0; i < u.NumFields(); i++ {
			cellPaths(u.Field(i).Type(), prefix+"."+u.Field(i).Name(), out)
		}
	default:
		*out = append(*out, prefix)
	}
}
