package main

// Symbolic execution of naive-form go/ssa into SMT terms: one pass over the
// (reducible) CFG in reverse post-order, state merging at joins, loops cut at
// their headers with invariants, calls replaced by contracts or inlined.

import (
	"fmt"
	"go/constant"
	"go/token"
	"go/types"
	"sort"
	"strings"

	"golang.org/x/tools/go/ssa"
)

type Val struct {
	C  []*Term
	Fn *Closure
	If *IfaceVal
}

type Closure struct {
	Fn   *ssa.Function
	Bind []Val
}

type IfaceVal struct {
	T types.Type
	V Val
}

type State struct {
	G    *Term
	Loc  map[int][]*Term
	Heap map[*Sort]*Term
}

func (s *State) clone() *State {
	n := &State{G: s.G, Loc: make(map[int][]*Term, len(s.Loc)), Heap: make(map[*Sort]*Term, len(s.Heap))}
	for k, v := range s.Loc {
		n.Loc[k] = v // cells slices are copy-on-write (never mutated in place)
	}
	for k, v := range s.Heap {
		n.Heap[k] = v
	}
	return n
}

type Obligation struct {
	Name    string
	Kind    string
	Func    string
	Tags    []string
	Pos     token.Position
	Guard   *Term
	Goal    *Term
	NAssume int
	Note    string
	Expect  string // "unsat" normally; "sat" for cover checks
	Splits  []*Term
	Extra   []*Term // additional hypotheses (law obligations: the second run's facts, callee law instances)
	scanFail bool
	ex      *Exec
}

type Region struct {
	Blk, Off *Term
	N        *Term // memory span (BV64)
	Const    int   // >0 when N is a constant: the span
	Sorts    []*Sort // cell sorts of the element / pointee type
	Offs     []int   // memory offsets of those cells
	Tags     []int   // sub-block of those cells
	MaxTag   int
	ElemSz   int     // for slice regions: stride per element
	ElemT    types.Type
}

const (
	localBlkLimit  = 0x8000000 // root blocks are multiples of 4096: locals and spec temporaries below this
	globalBlkBase  = 0x8000    // (n << 12)
	paramBlkBase   = 0x10000000
)

type Exec struct {
	W        *World
	Assumes  []*Term
	assumed  map[*Term]bool
	Obls     []*Obligation
	nextBlk  int
	nextTmp  int
	spec     int
	Top      *FuncInfo
	TopKey   string
	Active   map[string]bool // active property tags; nil = all
	counters map[string]int
	inlineStack []string
	regions  []Region // modifies regions of the top function
	pure     bool
	globals  map[*ssa.Global]int
	strBlks  map[string]int
	Errs     []string
	depth    int
	baseHeap map[*Sort]*Term
	entryArgs []Val
	olds     map[int]Val
	loopInfo map[*ssa.BasicBlock]*loopData
	noFrame  bool
	coverOnly bool
	splitRet bool
	fnCells  map[int]*Closure
	cellMeta map[int]Val
	typeIDs  map[string]int
	quant    int
	nonil    int
	lawMode  bool
	curLoop  *loopData
	unfold   int
	initMode bool
	initHavoc map[*ssa.Global]bool
	initState *State
	initAllocT map[int]types.Type
	initDone map[int]bool
	dumpDone map[*ssa.Global]bool
	constMem map[[2]uint64]*Term
	nextInit int
	unfolded map[string]bool
	splits   []*Term
	caseMask int
	caseIdx  []int
	splitArity []int
	nSplits  int
	caseTag  string
	calls    []*callRec
	lastArgStart []int
	lastHeadVars []*Term
	reqTerms []*Term
	callSeq  int
	usedContracts map[string]bool
	genOwners map[*GenFunc]*FuncInfo
}

type unsupported struct{ msg string }

func (x *Exec) fail(format string, a ...interface{}) {
	panic(unsupported{fmt.Sprintf(format, a...)})
}

func (r Region) tagSet() []int {
	seen := map[int]bool{}
	var out []int
	for _, t := range r.Tags {
		if !seen[t] {
			seen[t] = true
			out = append(out, t)
		}
	}
	if len(out) == 0 {
		out = []int{0}
	}
	return out
}

func heapSort(s *Sort) *Sort { return ArrS(BV32, ArrS(BV64, s)) }

func (x *Exec) heapOf(st *State, s *Sort) *Term {
	if h, ok := st.Heap[s]; ok {
		return h
	}
	h, ok := x.baseHeap[s]
	if !ok {
		n := strings.NewReplacer("(", "", ")", "", " ", "", "_", "").Replace(s.str)
		h = Var("H0!"+n, heapSort(s))
		x.baseHeap[s] = h
	}
	st.Heap[s] = h
	return h
}

func (x *Exec) assume(g, t *Term) {
	f := Implies(g, t)
	if f.IsTrue() || x.assumed[f] {
		return
	}
	x.assumed[f] = true
	x.Assumes = append(x.Assumes, f)
}

func (x *Exec) tagOn(tags []string) bool {
	if len(tags) == 0 || x.Active == nil {
		return true
	}
	for _, t := range tags {
		if x.Active[t] || t == "*" {
			return true
		}
	}
	return false
}

func (x *Exec) oblige(kind, site string, tags []string, pos token.Pos, st *State, goal *Term, note string) {
	if x.spec > 0 || x.lawMode {
		return
	}
	if goal.IsTrue() || st.G.IsFalse() {
		// still count it as trivially discharged for statistics
		x.counters["trivial"]++
		return
	}
	prefix := ""
	if len(x.inlineStack) > 0 {
		prefix = strings.Join(x.inlineStack, "/") + "/"
	}
	base := prefix + site
	x.counters[base]++
	name := fmt.Sprintf("%s/%s#%d", x.TopKey, base, x.counters[base])
	if x.nSplits > 0 {
		name += "[case " + x.caseTag + "]"
	} else if x.caseMask != 0 {
		return // obligations before the first split are taken from case 0 only
	}
	o := &Obligation{Name: name, Kind: kind, Func: x.TopKey, Tags: tags, Guard: st.G, Goal: goal, NAssume: len(x.Assumes), Note: note, Expect: "unsat", ex: x,
		Splits: append([]*Term{}, x.splits...)}
	if pos.IsValid() {
		o.Pos = x.W.Fset.Position(pos)
	}
	x.Obls = append(x.Obls, o)
}

// ---------- memory ----------

func zeroCells(t types.Type) []*Term {
	ss := cellsOf(t)
	out := make([]*Term, len(ss))
	for i, s := range ss {
		if s == BoolS {
			out[i] = False()
		} else {
			out[i] = BV(0, s.W)
		}
	}
	return out
}

func (x *Exec) freshCells(prefix string, t types.Type) []*Term {
	ss := cellsOf(t)
	var paths []string
	cellPaths(t, "", &paths)
	out := make([]*Term, len(ss))
	for i, s := range ss {
		p := ""
		if i < len(paths) {
			p = paths[i]
		}
		out[i] = Fresh(prefix+p, s)
	}
	return out
}

func (x *Exec) isLocalBlk(st *State, blk *Term) ([]*Term, int, bool) {
	if blk.Op != "const" {
		return nil, 0, false
	}
	id := int(blk.U64())
	c, ok := st.Loc[id]
	return c, id, ok
}

func derivedPtr(v ssa.Value) bool {
	switch v.(type) {
	case *ssa.IndexAddr, *ssa.FieldAddr, *ssa.Alloc, *ssa.Global:
		return true
	}
	return false
}

func (x *Exec) load(st *State, ptr []*Term, t types.Type, pos token.Pos) []*Term {
	blk, off := ptr[0], ptr[1]
	ss := cellsOf(t)
	if cells, _, ok := x.isLocalBlk(st, blk); ok && off.Op == "const" {
		o := int(off.U64())
		if o+len(ss) > len(cells) {
			x.fail("local load out of range")
		}
		return cells[o : o+len(ss)]
	}
	if x.nonil == 0 {
		x.oblige("nil", "nil", []string{"C04"}, pos, st, Neq(blk, BV(0, 32)), "nil pointer dereference")
	}
	out := make([]*Term, len(ss))
	mo := memOffsOf(t)
	mt := memTagsOf(t)
	for i, s := range ss {
		h := x.heapOf(st, s)
		cb := BVAdd(blk, BV(int64(mt[i]), 32))
		co := BVAdd(off, BV(int64(mo[i]), 64))
		// read-only package data with known content: use the value itself
		if cb.Op == "const" && co.Op == "const" && len(x.constMem) > 0 {
			if v, ok := x.constMem[[2]uint64{cb.U64(), co.U64()}]; ok && v.S == s {
				out[i] = v
				continue
			}
		}
		out[i] = Select(Select(h, cb), co)
	}
	x.typeInv(st, t, out)
	return x.normPtrs(st, t, out)
}

func (x *Exec) storeHeapCell(st *State, blk, off, v *Term) {
	h := x.heapOf(st, v.S)
	inner := Select(h, blk)
	st.Heap[v.S] = Store(h, blk, Store(inner, off, v))
}

func (x *Exec) store(st *State, ptr []*Term, t types.Type, v []*Term, pos token.Pos) {
	blk, off := ptr[0], ptr[1]
	ss := cellsOf(t)
	if len(v) != len(ss) {
		x.fail("store: value has %d cells, type %v has %d", len(v), t, len(ss))
	}
	if cells, id, ok := x.isLocalBlk(st, blk); ok && off.Op == "const" {
		o := int(off.U64())
		nc := make([]*Term, len(cells))
		copy(nc, cells)
		copy(nc[o:], v)
		st.Loc[id] = nc
		return
	}
	if x.nonil == 0 {
		x.oblige("nil", "nil", []string{"C04"}, pos, st, Neq(blk, BV(0, 32)), "nil pointer dereference")
	}
	x.frameCheck(st, blk, off, spanOf(t), pos)
	mo := memOffsOf(t)
	mt := memTagsOf(t)
	for i := range ss {
		x.storeHeapCell(st, BVAdd(blk, BV(int64(mt[i]), 32)), BVAdd(off, BV(int64(mo[i]), 64)), v[i])
	}
}

func (x *Exec) inRegions(blk, off *Term, n int) *Term {
	var alts []*Term
	alts = append(alts, ULT(blk, BV(localBlkLimit, 32)))
	for _, r := range x.regions {
		last := BVAdd(off, BV(int64(n-1), 64))
		end := BVAdd(r.Off, r.N)
		var bs []*Term
		for _, t := range r.tagSet() {
			bs = append(bs, Eq(blk, BVAdd(r.Blk, BV(int64(t), 32))))
		}
		alts = append(alts, And(Or(bs...), ULE(r.Off, off), ULT(off, end), ULE(r.Off, last), ULT(last, end)))
	}
	return Or(alts...)
}

func (x *Exec) frameCheck(st *State, blk, off *Term, n int, pos token.Pos) {
	if x.spec > 0 || x.noFrame {
		return
	}
	if blk.Op == "const" && blk.U64() < localBlkLimit {
		return
	}
	x.oblige("frame", "frame", []string{"C04"}, pos, st, x.inRegions(blk, off, n), "write outside the declared modifies set")
}

// type invariants of loaded / received values (slices: 0 <= len <= cap)
func (x *Exec) typeInv(st *State, t types.Type, c []*Term) {
	var rec func(t types.Type, off int)
	rec = func(t types.Type, off int) {
		switch u := t.Underlying().(type) {
		case *types.Slice:
			ln, cp := c[off+2], c[off+3]
			if ln.Op == "const" && cp.Op == "const" {
				return
			}
			x.assume(st.G, And(SLE(BV(0, 64), ln), SLE(ln, cp), SLE(cp, BV(1<<32, 64)), ULE(c[off+1], BV(1<<40, 64)),
				Implies(Eq(c[off], BV(0, 32)), Eq(cp, BV(0, 64)))))
		case *types.Basic:
			if isString(t) {
				ln := c[off+2]
				if ln.Op != "const" {
					x.assume(st.G, And(SLE(BV(0, 64), ln), SLE(ln, BV(1<<32, 64)), ULE(c[off+1], BV(1<<40, 64))))
				}
			}
		case *types.Struct:
			o := off
			for i := 0; i < u.NumFields(); i++ {
				ft := u.Field(i).Type()
				if hasSlice(ft) {
					rec(ft, o)
				}
				o += sizeOf(ft)
			}
		case *types.Array:
			if !hasSlice(u.Elem()) {
				return
			}
			es := sizeOf(u.Elem())
			for i := 0; i < int(u.Len()); i++ {
				rec(u.Elem(), off+i*es)
			}
		case *types.Pointer:
			// a non-nil pointer lies in a parameter / global / local block; offsets are small
			x.assume(st.G, And(ULE(c[off+1], BV(1<<40, 64)), Implies(Eq(c[off], BV(0, 32)), Eq(c[off+1], BV(0, 64)))))
		}
	}
	if hasSlice(t) && x.quant == 0 {
		rec(t, 0)
	}
}

var hasSliceCache = map[types.Type]bool{}

func hasSlice(t types.Type) bool {
	if v, ok := hasSliceCache[t]; ok {
		return v
	}
	r := false
	switch u := t.Underlying().(type) {
	case *types.Slice, *types.Pointer:
		r = true
	case *types.Basic:
		r = isString(t)
	case *types.Struct:
		for i := 0; i < u.NumFields(); i++ {
			if hasSlice(u.Field(i).Type()) {
				r = true
			}
		}
	case *types.Array:
		r = hasSlice(u.Elem())
	}
	hasSliceCache[t] = r
	return r
}

// addIdx: off + idx*stride with stride a power of two, written as concat(high(off)+idx, low(off)) so
// that the solvers see the element index and the field offset as separate bit ranges.
func addIdx(off, idx *Term, stride int) *Term {
	s := log2(stride)
	if s == 0 {
		return BVAdd(off, idx)
	}
	hi := BVAdd(Extract(63, s, off), Extract(63-s, 0, idx))
	return Concat(hi, Extract(s-1, 0, off))
}

// alignedOff: the canonical form of an offset known to be a multiple of al
func alignedOff(off *Term, al int) *Term {
	s := log2(al)
	if s == 0 {
		return off
	}
	return Concat(Extract(63, s, off), BV(0, s))
}

// normPtrs rewrites the offsets of pointers and slices inside a value into aligned canonical form
// (and assumes the alignment, which holds by construction of the memory layout).
func (x *Exec) normPtrs(st *State, t types.Type, c []*Term) []*Term {
	if !hasSlice(t) {
		return c
	}
	out := c
	cow := func() {
		if &out[0] == &c[0] {
			out = append([]*Term{}, c...)
		}
	}
	var rec func(t types.Type, off int)
	rec = func(t types.Type, off int) {
		switch u := t.Underlying().(type) {
		case *types.Slice:
			al := strideOf(u.Elem())
			if al > 1 {
				n := alignedOff(c[off+1], al)
				if n != c[off+1] {
					x.assume(st.G, Eq(c[off+1], n))
					cow()
					out[off+1] = n
				}
			}
		case *types.Pointer:
			al := alignOf(u.Elem())
			if al > 1 {
				n := alignedOff(c[off+1], al)
				if n != c[off+1] {
					x.assume(st.G, Eq(c[off+1], n))
					cow()
					out[off+1] = n
				}
			}
		case *types.Struct:
			o := off
			for i := 0; i < u.NumFields(); i++ {
				ft := u.Field(i).Type()
				if hasSlice(ft) {
					rec(ft, o)
				}
				o += sizeOf(ft)
			}
		case *types.Array:
			if hasSlice(u.Elem()) {
				es := sizeOf(u.Elem())
				for i := 0; i < int(u.Len()); i++ {
					rec(u.Elem(), off+i*es)
				}
			}
		}
	}
	if x.quant == 0 {
		rec(t, 0)
	}
	return out
}

func (x *Exec) newBlk() int {
	if x.initMode {
		x.nextInit++
		return (globalBlkBase + 0x1000 + x.nextInit) << 12
	}
	if x.spec > 0 {
		x.nextTmp++
		if x.nextTmp >= 0x3fff {
			// wrap: temporaries of finished spec evaluations are dead
			x.nextTmp = 1
		}
		return (0x4000 + x.nextTmp) << 12
	}
	x.nextBlk++
	if x.nextBlk >= 0x4000 {
		x.fail("too many local blocks")
	}
	return x.nextBlk << 12
}

// constant byte data (string literals) live in read-only local-range blocks of the SMT heap
func (x *Exec) constBytes(st *State, s string) (blk *Term) {
	id, ok := x.strBlks[s]
	if !ok {
		id = x.newBlk()
		x.strBlks[s] = id
		h := x.heapOf(st, BV8)
		base := x.baseHeap[BV8]
		_ = h
		inner := Select(base, BV(int64(id), 32))
		if x.constMem == nil {
			x.constMem = map[[2]uint64]*Term{}
		}
		for i := 0; i < len(s); i++ {
			x.assume(True(), Eq(Select(inner, BV(int64(i), 64)), BV(int64(s[i]), 8)))
			x.constMem[[2]uint64{uint64(id), uint64(i)}] = BV(int64(s[i]), 8)
		}
	}
	return BV(int64(id), 32)
}

// ---------- frames ----------

type fragOut struct {
	arr map[*ssa.BasicBlock][]*State // states arriving at loop headers (fragment mode)
}

type Frame struct {
	frag      *fragOut
	fragStart *ssa.BasicBlock
	fn     *ssa.Function
	vals   map[ssa.Value]Val
	allocs map[*ssa.Alloc]int
	args   []Val
	fv     []Val
	top    bool
}

type predState struct {
	pred *ssa.BasicBlock
	st   *State
}

type loopData struct {
	header   *ssa.BasicBlock
	blocks   map[*ssa.BasicBlock]bool
	ord      int
	lc       *LoopContract
	modAlloc map[*ssa.Alloc]bool
	heapW    bool
	dec0     *Term
}

type cfgInfo struct {
	rpo      []*ssa.BasicBlock
	backEdge map[[2]int]bool
	loops    map[*ssa.BasicBlock]*loopData
	headers  []*ssa.BasicBlock
}

var cfgCache = map[*ssa.Function]*cfgInfo{}

func analyzeCFG(fn *ssa.Function) *cfgInfo {
	if c, ok := cfgCache[fn]; ok {
		return c
	}
	ci := &cfgInfo{backEdge: map[[2]int]bool{}, loops: map[*ssa.BasicBlock]*loopData{}}
	state := map[*ssa.BasicBlock]int{}
	var post []*ssa.BasicBlock
	var dfs func(b *ssa.BasicBlock)
	dfs = func(b *ssa.BasicBlock) {
		state[b] = 1
		for _, s := range b.Succs {
			if state[s] == 0 {
				dfs(s)
			} else if state[s] == 1 {
				ci.backEdge[[2]int{b.Index, s.Index}] = true
				if _, ok := ci.loops[s]; !ok {
					ci.loops[s] = &loopData{header: s, blocks: map[*ssa.BasicBlock]bool{s: true}, modAlloc: map[*ssa.Alloc]bool{}}
				}
			}
		}
		state[b] = 2
		post = append(post, b)
	}
	if len(fn.Blocks) > 0 {
		dfs(fn.Blocks[0])
	}
	for i := len(post) - 1; i >= 0; i-- {
		ci.rpo = append(ci.rpo, post[i])
	}
	// natural loops
	for be := range ci.backEdge {
		t, h := fn.Blocks[be[0]], fn.Blocks[be[1]]
		ld := ci.loops[h]
		var stack []*ssa.BasicBlock
		if !ld.blocks[t] {
			ld.blocks[t] = true
			stack = append(stack, t)
		}
		for len(stack) > 0 {
			b := stack[len(stack)-1]
			stack = stack[:len(stack)-1]
			for _, p := range b.Preds {
				if !ld.blocks[p] {
					ld.blocks[p] = true
					stack = append(stack, p)
				}
			}
		}
	}
	for h := range ci.loops {
		ci.headers = append(ci.headers, h)
	}
	sort.Slice(ci.headers, func(i, j int) bool { return ci.headers[i].Index < ci.headers[j].Index })
	for i, h := range ci.headers {
		ci.loops[h].ord = i
	}
	cfgCache[fn] = ci
	return ci
}

func rootAlloc(v ssa.Value) *ssa.Alloc {
	for {
		switch a := v.(type) {
		case *ssa.Alloc:
			return a
		case *ssa.FieldAddr:
			v = a.X
		case *ssa.IndexAddr:
			v = a.X
		default:
			return nil
		}
	}
}

// is this alloc kept in the register-like local store?
var regLikeCache = map[*ssa.Alloc]bool{}

func regLike(a *ssa.Alloc) bool {
	if v, ok := regLikeCache[a]; ok {
		return v
	}
	r := true
	t := a.Type().Underlying().(*types.Pointer).Elem()
	switch t.Underlying().(type) {
	case *types.Struct, *types.Array:
		r = false
	}
	if a.Heap {
		r = false
	}
	if r {
		for _, ref := range *a.Referrers() {
			switch u := ref.(type) {
			case *ssa.UnOp:
				if u.Op != token.MUL {
					r = false
				}
			case *ssa.Store:
				if u.Val == ssa.Value(a) {
					r = false
				}
			case *ssa.MakeClosure:
				// captured by reference; closures are always inlined
			case *ssa.DebugRef:
			default:
				r = false
			}
		}
	}
	regLikeCache[a] = r
	return r
}

// ---------- running a function body ----------

type retInfo struct {
	st  *State
	val Val
	pos token.Pos
}

func conjuncts(t *Term) []*Term {
	if t.Op == "and" {
		return t.Args
	}
	if t.IsTrue() {
		return nil
	}
	return []*Term{t}
}

// stripCommon splits guards g_i into common /\ rest_i.
func stripCommon(gs []*Term) (*Term, []*Term) {
	if len(gs) == 1 {
		return gs[0], []*Term{True()}
	}
	cnt := map[int]int{}
	for _, g := range gs {
		for _, c := range conjuncts(g) {
			cnt[c.id]++
		}
	}
	var common []*Term
	seen := map[int]bool{}
	rest := make([]*Term, len(gs))
	for i, g := range gs {
		var r []*Term
		for _, c := range conjuncts(g) {
			if cnt[c.id] == len(gs) {
				if !seen[c.id] {
					seen[c.id] = true
					common = append(common, c)
				}
			} else {
				r = append(r, c)
			}
		}
		rest[i] = And(r...)
	}
	return And(common...), rest
}

func (x *Exec) mergeStates(ins []predState) *State {
	if len(ins) == 1 {
		return ins[0].st
	}
	gs := make([]*Term, len(ins))
	for i, p := range ins {
		gs[i] = p.st.G
	}
	common, rel := stripCommon(gs)
	out := ins[len(ins)-1].st.clone()
	for i := len(ins) - 2; i >= 0; i-- {
		s := ins[i].st
		cond := rel[i]
		// locals
		for id, cells := range s.Loc {
			oc, ok := out.Loc[id]
			if !ok {
				out.Loc[id] = cells
				continue
			}
			same := true
			if len(oc) == len(cells) {
				for k := range oc {
					if oc[k] != cells[k] {
						same = false
						break
					}
				}
			} else {
				same = false
			}
			if same {
				continue
			}
			nc := make([]*Term, len(oc))
			for k := range oc {
				nc[k] = Ite(cond, cells[k], oc[k])
			}
			out.Loc[id] = nc
		}
		for srt, h := range s.Heap {
			oh := x.heapOf(out, srt)
			if oh != h {
				out.Heap[srt] = Ite(cond, h, oh)
			}
		}
		for srt, oh := range out.Heap {
			if _, ok := s.Heap[srt]; !ok {
				bh := x.baseHeap[srt]
				if oh != bh {
					out.Heap[srt] = Ite(cond, bh, oh)
				}
			}
		}
	}
	out.G = And(common, Or(rel...))
	return out
}

func mergeVals(g *Term, a, b Val) Val {
	if a.Fn != nil || b.Fn != nil {
		return a
	}
	if len(a.C) != len(b.C) {
		panic("mergeVals: arity")
	}
	out := Val{C: make([]*Term, len(a.C)), If: a.If}
	for i := range a.C {
		out.C[i] = Ite(g, a.C[i], b.C[i])
	}
	return out
}

func (x *Exec) runBody(fr *Frame, entry *State) []retInfo {
	fn := fr.fn
	ci := analyzeCFG(fn)
	if !fr.top && len(ci.loops) > 0 {
		x.fail("function %s has loops and no contract; cannot inline", fnKey(fn))
	}
	ins := map[*ssa.BasicBlock][]predState{}
	startBlk := fn.Blocks[0]
	if fr.fragStart != nil {
		startBlk = fr.fragStart
	}
	ins[startBlk] = []predState{{nil, entry}}
	var rets []retInfo
	for _, b := range ci.rpo {
		in := ins[b]
		if len(in) == 0 {
			continue
		}
		delete(ins, b)
		st := x.mergeStates(in)
		if st.G.IsFalse() {
			continue
		}
		if len(in) == 1 {
			st = st.clone()
		}
		if ld, ok := ci.loops[b]; ok && fr.frag == nil {
			x.loopHead(fr, ld, st)
		}
		var term ssa.Instruction
		for _, instr := range b.Instrs {
			switch ii := instr.(type) {
			case *ssa.Phi:
				var v Val
				first := true
				pgs := make([]*Term, len(in))
				for k, ps := range in {
					pgs[k] = ps.st.G
				}
				_, prel := stripCommon(pgs)
				for k := len(in) - 1; k >= 0; k-- {
					ps := in[k]
					for ei, p := range b.Preds {
						if p == ps.pred {
							ev := x.value(fr, st, ii.Edges[ei])
							if first {
								v = ev
								first = false
							} else {
								v = mergeVals(prel[k], ev, v)
							}
							break
						}
					}
				}
				fr.vals[ii] = v
			case *ssa.If, *ssa.Jump, *ssa.Return, *ssa.Panic:
				term = instr
			default:
				x.instr(fr, st, instr)
			}
		}
		switch t := term.(type) {
		case *ssa.If:
			c := x.value(fr, st, t.Cond).C[0]
			s0 := st.clone()
			s0.G = And(st.G, c)
			s1 := st
			s1.G = And(st.G, Not(c))
			x.edge(fr, ci, ins, b, b.Succs[0], s0)
			x.edge(fr, ci, ins, b, b.Succs[1], s1)
		case *ssa.Jump:
			x.edge(fr, ci, ins, b, b.Succs[0], st)
		case *ssa.Return:
			var v Val
			for _, r := range t.Results {
				rv := x.value(fr, st, r)
				v.C = append(v.C, rv.C...)
				if len(t.Results) == 1 {
					v.Fn = rv.Fn
					v.If = rv.If
				}
			}
			rets = append(rets, retInfo{st, v, t.Pos()})
		case *ssa.Panic:
			x.oblige("panic", "panic", []string{"C04"}, t.Pos(), st, False(), "panic reachable")
		case nil:
			x.fail("block %d of %s has no terminator", b.Index, fn.Name())
		}
	}
	return rets
}

func (x *Exec) edge(fr *Frame, ci *cfgInfo, ins map[*ssa.BasicBlock][]predState, from, to *ssa.BasicBlock, st *State) {
	if st.G.IsFalse() {
		return
	}
	if fr.frag != nil {
		if _, isHead := ci.loops[to]; isHead {
			// fragment mode: every arrival at a loop header ends the fragment
			fr.frag.arr[to] = append(fr.frag.arr[to], st)
			return
		}
	}
	if ci.backEdge[[2]int{from.Index, to.Index}] {
		if !fr.top {
			x.fail("back edge in inlined function")
		}
		x.backEdge(fr, ci.loops[to], st, from)
		return
	}
	ins[to] = append(ins[to], predState{from, st})
}

// ---------- values ----------

func (x *Exec) constVal(st *State, c *ssa.Const) Val {
	t := c.Type()
	if c.Value == nil {
		return Val{C: zeroCells(t)}
	}
	switch u := t.Underlying().(type) {
	case *types.Basic:
		switch {
		case u.Info()&types.IsBoolean != 0:
			return Val{C: []*Term{BoolC(constant.BoolVal(c.Value))}}
		case u.Info()&types.IsInteger != 0:
			w := cellsOf(t)[0].W
			bi, ok := constant.Val(constant.ToInt(c.Value)).(interface{ String() string })
			_ = bi
			_ = ok
			if i64, exact := constant.Int64Val(constant.ToInt(c.Value)); exact {
				return Val{C: []*Term{BV(i64, w)}}
			}
			u64, _ := constant.Uint64Val(constant.ToInt(c.Value))
			return Val{C: []*Term{BVU(u64, w)}}
		case u.Info()&types.IsString != 0:
			s := constant.StringVal(c.Value)
			blk := x.constBytes(st, s)
			return Val{C: []*Term{blk, BV(0, 64), BV(int64(len(s)), 64)}}
		}
	}
	x.fail("unsupported constant %v of type %v", c, t)
	return Val{}
}

func (x *Exec) value(fr *Frame, st *State, v ssa.Value) Val {
	switch c := v.(type) {
	case *ssa.Const:
		return x.constVal(st, c)
	case *ssa.Function:
		return Val{C: []*Term{BV(0, 64)}, Fn: &Closure{Fn: c}}
	case *ssa.Global:
		id := x.globalBlk(c)
		if !x.initMode && !x.initHavoc[c] {
			x.assumeInitBlock(id, c.Type().Underlying().(*types.Pointer).Elem())
		}
		if !x.initMode && x.initHavoc[c] {
			x.assumeDump(c, id)
		}
		return Val{C: []*Term{BV(int64(id), 32), BV(0, 64)}}
	case *ssa.Builtin:
		return Val{C: []*Term{BV(0, 64)}}
	case *ssa.Parameter:
		for i, p := range fr.fn.Params {
			if p == c {
				return fr.args[i]
			}
		}
	case *ssa.FreeVar:
		for i, p := range fr.fn.FreeVars {
			if p == c {
				return fr.fv[i]
			}
		}
	}
	if r, ok := fr.vals[v]; ok {
		return r
	}
	x.fail("value %s (%T) not available in %s", v.Name(), v, fr.fn.Name())
	return Val{}
}

func (x *Exec) globalBlk(g *ssa.Global) int {
	if id, ok := x.globals[g]; ok {
		return id
	}
	id := (globalBlkBase + len(x.globals) + 1) << 12
	x.globals[g] = id
	return id
}

func to64(t *Term, signed bool) *Term {
	if signed {
		return SExt(t, 64)
	}
	return ZExt(t, 64)
}

// ---------- instructions ----------

func (x *Exec) instr(fr *Frame, st *State, instr ssa.Instruction) {
	switch i := instr.(type) {
	case *ssa.Alloc:
		t := i.Type().Underlying().(*types.Pointer).Elem()
		id := x.newBlk()
		fr.allocs[i] = id
		if regLike(i) {
			st.Loc[id] = zeroCells(t)
		} else {
			z := zeroCells(t)
			mo := memOffsOf(t)
			mt := memTagsOf(t)
			for k, c := range z {
				x.storeHeapCell(st, BV(int64(id+mt[k]), 32), BV(int64(mo[k]), 64), c)
			}
		}
		fr.vals[i] = Val{C: []*Term{BV(int64(id), 32), BV(0, 64)}}
	case *ssa.UnOp:
		xv := x.value(fr, st, i.X)
		switch i.Op {
		case token.MUL:
			t := i.X.Type().Underlying().(*types.Pointer).Elem()
			if derivedPtr(i.X) {
				x.nonil++
			}
			lv := Val{C: x.load(st, xv.C, t, i.Pos())}
			if derivedPtr(i.X) {
				x.nonil--
			}
			if xv.C[0].Op == "const" {
				if m, ok := x.cellMeta[int(xv.C[0].U64())]; ok {
					lv.Fn, lv.If = m.Fn, m.If
				}
			}
			fr.vals[i] = lv
		case token.NOT:
			fr.vals[i] = Val{C: []*Term{Not(xv.C[0])}}
		case token.SUB:
			fr.vals[i] = Val{C: []*Term{BVNeg(xv.C[0])}}
		case token.XOR:
			fr.vals[i] = Val{C: []*Term{BVNot(xv.C[0])}}
		default:
			x.fail("unsupported unary op %v", i.Op)
		}
	case *ssa.Store:
		t := i.Addr.Type().Underlying().(*types.Pointer).Elem()
		a := x.value(fr, st, i.Addr)
		v := x.value(fr, st, i.Val)
		if v.Fn != nil || v.If != nil {
			// static knowledge about function / interface values survives in local cells
			if _, id, ok := x.isLocalBlk(st, a.C[0]); ok {
				if x.cellMeta == nil {
					x.cellMeta = map[int]Val{}
				}
				x.cellMeta[id] = Val{Fn: v.Fn, If: v.If}
				if v.Fn != nil {
					if x.fnCells == nil {
						x.fnCells = map[int]*Closure{}
					}
					x.fnCells[id] = v.Fn
				}
			} else if v.Fn != nil {
				x.fail("store of a function value to the heap")
			}
		}
		if derivedPtr(i.Addr) {
			x.nonil++
		}
		x.store(st, a.C, t, v.C, i.Pos())
		if derivedPtr(i.Addr) {
			x.nonil--
		}
	case *ssa.FieldAddr:
		p := x.value(fr, st, i.X)
		stt := i.X.Type().Underlying().(*types.Pointer).Elem().Underlying().(*types.Struct)
		x.obligeNonNil(st, p.C[0], i.Pos())
		fblk := p.C[0]
		if ownBlock(stt.Field(i.Field).Type()) {
			fblk = BVAdd(fblk, BV(int64(fieldTag(i.X.Type().Underlying().(*types.Pointer).Elem(), i.Field)), 32))
		}
		fr.vals[i] = Val{C: []*Term{fblk, BVAdd(p.C[1], BV(int64(fieldMemOffset(stt, i.Field)), 64))}}
	case *ssa.Field:
		sv := x.value(fr, st, i.X)
		stt := i.X.Type().Underlying().(*types.Struct)
		o := fieldOffset(stt, i.Field)
		n := sizeOf(stt.Field(i.Field).Type())
		fr.vals[i] = Val{C: sv.C[o : o+n]}
	case *ssa.IndexAddr:
		xv := x.value(fr, st, i.X)
		idx := x.value(fr, st, i.Index).C[0]
		idx64 := to64(idx, isSigned(i.Index.Type()))
		var ln *Term
		var elem types.Type
		var blk, off *Term
		switch u := i.X.Type().Underlying().(type) {
		case *types.Slice:
			elem = u.Elem()
			blk, off, ln = xv.C[0], xv.C[1], xv.C[2]
		case *types.Pointer:
			arr := u.Elem().Underlying().(*types.Array)
			elem = arr.Elem()
			blk, off, ln = xv.C[0], xv.C[1], BV(arr.Len(), 64)
			x.obligeNonNil(st, blk, i.Pos())
		default:
			x.fail("IndexAddr on %v", i.X.Type())
		}
		x.oblige("index", "index", []string{"C04"}, i.Pos(), st, ULT(idx64, ln), "index out of range")
		es := strideOf(elem)
		fr.vals[i] = Val{C: []*Term{blk, addIdx(off, idx64, es)}}
	case *ssa.Index:
		xv := x.value(fr, st, i.X)
		idx := x.value(fr, st, i.Index).C[0]
		idx64 := to64(idx, isSigned(i.Index.Type()))
		switch u := i.X.Type().Underlying().(type) {
		case *types.Array:
			es := sizeOf(u.Elem())
			x.oblige("index", "index", []string{"C04"}, i.Pos(), st, ULT(idx64, BV(u.Len(), 64)), "index out of range")
			if idx64.Op == "const" {
				k := int(idx64.U64())
				if int64(k) >= u.Len() {
					k = 0
				}
				fr.vals[i] = Val{C: xv.C[k*es : (k+1)*es]}
			} else {
				res := make([]*Term, es)
				copy(res, xv.C[0:es])
				for k := 1; k < int(u.Len()); k++ {
					for c := 0; c < es; c++ {
						res[c] = Ite(Eq(idx64, BV(int64(k), 64)), xv.C[k*es+c], res[c])
					}
				}
				fr.vals[i] = Val{C: res}
			}
		case *types.Basic: // string
			x.oblige("index", "index", []string{"C04"}, i.Pos(), st, ULT(idx64, xv.C[2]), "index out of range")
			h := x.heapOf(st, BV8)
			fr.vals[i] = Val{C: []*Term{Select(Select(h, xv.C[0]), BVAdd(xv.C[1], idx64))}}
		default:
			x.fail("Index on %v", i.X.Type())
		}
	case *ssa.Slice:
		x.sliceInstr(fr, st, i)
	case *ssa.BinOp:
		fr.vals[i] = x.binop(fr, st, i)
	case *ssa.Convert:
		fr.vals[i] = x.convert(fr, st, i)
	case *ssa.ChangeType:
		fr.vals[i] = x.value(fr, st, i.X)
	case *ssa.ChangeInterface:
		fr.vals[i] = x.value(fr, st, i.X)
	case *ssa.MakeInterface:
		v := x.value(fr, st, i.X)
		t := i.X.Type()
		tid := BV(int64(x.typeID(t)), 32)
		if _, ok := t.Underlying().(*types.Pointer); ok {
			fr.vals[i] = Val{C: []*Term{tid, v.C[0], v.C[1]}, If: &IfaceVal{T: t, V: v}}
		} else {
			fr.vals[i] = Val{C: []*Term{tid, BV(0, 32), BV(0, 64)}, If: &IfaceVal{T: t, V: v}}
		}
	case *ssa.Extract:
		tv := x.value(fr, st, i.Tuple)
		tp := i.Tuple.Type().(*types.Tuple)
		o := tupleOffset(tp, i.Index)
		n := sizeOf(tp.At(i.Index).Type())
		fr.vals[i] = Val{C: tv.C[o : o+n]}
	case *ssa.Call:
		fr.vals[i] = x.call(fr, st, i)
	case *ssa.MakeClosure:
		cl := &Closure{Fn: i.Fn.(*ssa.Function)}
		for _, b := range i.Bindings {
			cl.Bind = append(cl.Bind, x.value(fr, st, b))
		}
		fr.vals[i] = Val{C: []*Term{BV(0, 64)}, Fn: cl}
	case *ssa.RunDefers, *ssa.DebugRef:
	case *ssa.TypeAssert:
		v := x.value(fr, st, i.X)
		if _, ok := i.AssertedType.Underlying().(*types.Pointer); ok && i.CommaOk {
			tid := BV(int64(x.typeID(i.AssertedType)), 32)
			okT := Eq(v.C[0], tid)
			fr.vals[i] = Val{C: []*Term{Ite(okT, v.C[1], BV(0, 32)), Ite(okT, v.C[2], BV(0, 64)), okT}}
		} else if _, ok := i.AssertedType.Underlying().(*types.Pointer); ok && !i.CommaOk {
			tid := BV(int64(x.typeID(i.AssertedType)), 32)
			x.oblige("typeassert", "typeassert", []string{"C04"}, i.Pos(), st, Eq(v.C[0], tid), "type assertion may fail")
			fr.vals[i] = Val{C: []*Term{v.C[1], v.C[2]}}
		} else {
			x.fail("unsupported type assertion to %v", i.AssertedType)
		}
	default:
		x.fail("unsupported instruction %T: %s", instr, instr)
	}
}

func (x *Exec) typeID(t types.Type) int {
	s := types.TypeString(t, nil)
	if x.typeIDs == nil {
		x.typeIDs = map[string]int{}
	}
	if id, ok := x.typeIDs[s]; ok {
		return id
	}
	id := len(x.typeIDs) + 1
	x.typeIDs[s] = id
	return id
}

func (x *Exec) obligeNonNil(st *State, blk *Term, pos token.Pos) {
	if blk.Op == "const" && blk.U64() != 0 {
		return
	}
	x.oblige("nil", "nil", []string{"C04"}, pos, st, Neq(blk, BV(0, 32)), "nil pointer dereference")
}

func (x *Exec) sliceInstr(fr *Frame, st *State, i *ssa.Slice) {
	xv := x.value(fr, st, i.X)
	var blk, off, ln, cp *Term
	var es int
	isStr := false
	switch u := i.X.Type().Underlying().(type) {
	case *types.Slice:
		blk, off, ln, cp = xv.C[0], xv.C[1], xv.C[2], xv.C[3]
		es = strideOf(u.Elem())
	case *types.Pointer:
		arr := u.Elem().Underlying().(*types.Array)
		blk, off = xv.C[0], xv.C[1]
		ln = BV(arr.Len(), 64)
		cp = ln
		es = strideOf(arr.Elem())
		x.obligeNonNil(st, blk, i.Pos())
	case *types.Basic:
		blk, off, ln = xv.C[0], xv.C[1], xv.C[2]
		cp = ln
		es = 1
		isStr = true
	default:
		x.fail("Slice on %v", i.X.Type())
	}
	lo := BV(0, 64)
	if i.Low != nil {
		lo = to64(x.value(fr, st, i.Low).C[0], isSigned(i.Low.Type()))
	}
	hi := ln
	if i.High != nil {
		hi = to64(x.value(fr, st, i.High).C[0], isSigned(i.High.Type()))
	}
	mx := cp
	if i.Max != nil {
		mx = to64(x.value(fr, st, i.Max).C[0], isSigned(i.Max.Type()))
	}
	// 0 <= lo <= hi <= max <= cap  (unsigned compares cover negatives)
	x.oblige("slice", "slice", []string{"C04"}, i.Pos(), st, And(ULE(lo, hi), ULE(hi, mx), ULE(mx, cp)), "slice bounds out of range")
	noff := addIdx(off, lo, es)
	if isStr {
		fr.vals[i] = Val{C: []*Term{blk, noff, BVSub(hi, lo)}}
	} else {
		fr.vals[i] = Val{C: []*Term{blk, noff, BVSub(hi, lo), BVSub(mx, lo)}}
	}
}

func (x *Exec) binop(fr *Frame, st *State, i *ssa.BinOp) Val {
	a := x.value(fr, st, i.X)
	b := x.value(fr, st, i.Y)
	t := i.X.Type()
	switch i.Op {
	case token.EQL, token.NEQ:
		var e *Term
		if isString(t) {
			e = x.stringEq(st, a, b)
		} else if _, ok := t.Underlying().(*types.Interface); ok {
			// comparison with nil interface, or identical pointer-shaped dynamic values
			e = And(Eq(a.C[0], b.C[0]), Eq(a.C[1], b.C[1]), Eq(a.C[2], b.C[2]))
		} else {
			if len(a.C) != len(b.C) {
				x.fail("eq arity mismatch")
			}
			var es []*Term
			for k := range a.C {
				es = append(es, Eq(a.C[k], b.C[k]))
			}
			e = And(es...)
		}
		if i.Op == token.NEQ {
			e = Not(e)
		}
		return Val{C: []*Term{e}}
	}
	if bt, ok := t.Underlying().(*types.Basic); ok && bt.Info()&types.IsBoolean != 0 {
		x.fail("boolean binop %v", i.Op)
	}
	if !isInteger(t) {
		x.fail("binop %v on %v", i.Op, t)
	}
	p, q := a.C[0], b.C[0]
	sg := isSigned(t)
	switch i.Op {
	case token.ADD:
		return Val{C: []*Term{BVAdd(p, q)}}
	case token.SUB:
		return Val{C: []*Term{BVSub(p, q)}}
	case token.MUL:
		return Val{C: []*Term{BVMul(p, q)}}
	case token.QUO:
		x.oblige("divzero", "divzero", []string{"C04"}, i.Pos(), st, Neq(q, BV(0, q.S.W)), "division by zero")
		if sg {
			return Val{C: []*Term{BVSdiv(p, q)}}
		}
		return Val{C: []*Term{BVUdiv(p, q)}}
	case token.REM:
		x.oblige("divzero", "divzero", []string{"C04"}, i.Pos(), st, Neq(q, BV(0, q.S.W)), "division by zero")
		if sg {
			return Val{C: []*Term{BVSrem(p, q)}}
		}
		return Val{C: []*Term{BVUrem(p, q)}}
	case token.AND:
		return Val{C: []*Term{BVAnd(p, q)}}
	case token.OR:
		return Val{C: []*Term{BVOr(p, q)}}
	case token.XOR:
		return Val{C: []*Term{BVXor(p, q)}}
	case token.AND_NOT:
		return Val{C: []*Term{BVAnd(p, BVNot(q))}}
	case token.SHL, token.SHR:
		// shift count may have a different width and is unsigned or checked non-negative
		w := p.S.W
		ysg := isSigned(i.Y.Type())
		var cnt *Term
		if q.S.W < w {
			cnt = to64(q, ysg)
			cnt = ZExt(Extract(q.S.W-1, 0, cnt), w)
			if ysg {
				cnt = SExt(q, w)
			}
		} else if q.S.W > w {
			// saturate: if q >= w then w else q
			big := UGE(q, BV(int64(w), q.S.W))
			cnt = Ite(big, BV(int64(w), w), Extract(w-1, 0, q))
		} else {
			cnt = q
		}
		if ysg {
			x.oblige("shift", "shift", []string{"C04"}, i.Pos(), st, SGE(q, BV(0, q.S.W)), "negative shift count")
		}
		if i.Op == token.SHL {
			return Val{C: []*Term{BVShl(p, cnt)}}
		}
		if sg {
			return Val{C: []*Term{BVAshr(p, cnt)}}
		}
		return Val{C: []*Term{BVLshr(p, cnt)}}
	case token.LSS:
		if sg {
			return Val{C: []*Term{SLT(p, q)}}
		}
		return Val{C: []*Term{ULT(p, q)}}
	case token.LEQ:
		if sg {
			return Val{C: []*Term{SLE(p, q)}}
		}
		return Val{C: []*Term{ULE(p, q)}}
	case token.GTR:
		if sg {
			return Val{C: []*Term{SGT(p, q)}}
		}
		return Val{C: []*Term{UGT(p, q)}}
	case token.GEQ:
		if sg {
			return Val{C: []*Term{SGE(p, q)}}
		}
		return Val{C: []*Term{UGE(p, q)}}
	}
	x.fail("unsupported binop %v", i.Op)
	return Val{}
}

func (x *Exec) stringEq(st *State, a, b Val) *Term {
	// only comparisons where one side has constant length are supported
	var k *Term
	if a.C[2].Op == "const" {
		k = a.C[2]
	} else if b.C[2].Op == "const" {
		k = b.C[2]
	} else {
		x.fail("comparison of two non-constant strings")
	}
	n := int(k.U64())
	h := x.heapOf(st, BV8)
	es := []*Term{Eq(a.C[2], b.C[2])}
	for j := 0; j < n; j++ {
		es = append(es, Eq(Select(Select(h, a.C[0]), BVAdd(a.C[1], BV(int64(j), 64))), Select(Select(h, b.C[0]), BVAdd(b.C[1], BV(int64(j), 64)))))
	}
	return And(es...)
}

func (x *Exec) convert(fr *Frame, st *State, i *ssa.Convert) Val {
	v := x.value(fr, st, i.X)
	from, to := i.X.Type(), i.Type()
	if isInteger(from) && isInteger(to) {
		w := cellsOf(to)[0].W
		c := v.C[0]
		if w <= c.S.W {
			return Val{C: []*Term{Extract(w-1, 0, c)}}
		}
		if isSigned(from) {
			return Val{C: []*Term{SExt(c, w)}}
		}
		return Val{C: []*Term{ZExt(c, w)}}
	}
	if isString(from) {
		if _, ok := to.Underlying().(*types.Slice); ok {
			// []byte(s): a fresh copy; modelled as a read-only view of the same bytes
			return Val{C: []*Term{v.C[0], v.C[1], v.C[2], v.C[2]}}
		}
	}
	if _, ok := from.Underlying().(*types.Slice); ok && isString(to) {
		return Val{C: []*Term{v.C[0], v.C[1], v.C[2]}}
	}
	if _, ok := from.Underlying().(*types.Pointer); ok {
		return v
	}
	x.fail("unsupported conversion %v -> %v", from, to)
	return Val{}
}
