package main

import (
	"encoding/json"
	"go/constant"
	"go/types"
	"fmt"
	"os"
	"path/filepath"
	"sort"
	"strings"
	"time"

	"golang.org/x/tools/go/ssa"
)

type Run struct {
	W         *World
	Prop      string
	Tier      string
	Active    map[string]bool
	OutDir    string
	Timeout   time.Duration
	Jobs      int
	Verbose   bool
	Split     bool
	Evidence  string
	ListOnly  bool
	KnownFile string
	ReplayDir string
	Explain   bool
	keepFiles []string
	Only      string
	T0        time.Time
	LoadSecs  float64
}

// functions with a clause tagged prop, plus the contract callees they (transitively) rely on
func (w *World) selectFuncs(prop string) []string {
	sel := map[string]bool{}
	hasTag := func(cs []*Clause) bool {
		for _, c := range cs {
			for _, t := range c.Tags {
				if t == prop {
					return true
				}
			}
		}
		return false
	}
	for k, fi := range w.Funcs {
		if fi.C.Trusted {
			continue
		}
		if prop == "" || prop == "C04" {
			sel[k] = true
			continue
		}
		if hasTag(fi.C.Requires) || hasTag(fi.C.Ensures) || hasTag(fi.C.Laws) {
			sel[k] = true
		}
		for _, lc := range fi.C.Loops {
			if hasTag(lc.Invs) {
				sel[k] = true
			}
		}
	}
	// closure over contract callees
	changed := true
	for changed {
		changed = false
		for k := range sel {
			for _, c := range w.contractCallees(w.Funcs[k].Fn, map[*ssa.Function]bool{}) {
				if !sel[c] && !w.Funcs[c].C.Trusted {
					sel[c] = true
					changed = true
				}
			}
		}
	}
	var out []string
	for k := range sel {
		out = append(out, k)
	}
	sort.Strings(out)
	return out
}

func (w *World) contractCallees(fn *ssa.Function, seen map[*ssa.Function]bool) []string {
	if fn == nil || seen[fn] {
		return nil
	}
	seen[fn] = true
	var out []string
	for _, b := range fn.Blocks {
		for _, in := range b.Instrs {
			var callee *ssa.Function
			switch i := in.(type) {
			case *ssa.Call:
				callee = i.Call.StaticCallee()
			case *ssa.MakeClosure:
				callee = i.Fn.(*ssa.Function)
			}
			if callee == nil {
				continue
			}
			if fi := w.ByFn[callee]; fi != nil && !fi.C.Inline {
				out = append(out, fi.Key)
			} else {
				out = append(out, w.contractCallees(callee, seen)...)
			}
		}
	}
	return out
}

func (r *Run) keep(o *Obligation) bool {
	if o.Kind == "cover" {
		return true
	}
	if r.Active == nil {
		return true
	}
	if len(o.Tags) == 0 {
		return true
	}
	// a clause tagged [X,*] is assumed by every check (support) but verified only by the check of X
	star, other := false, false
	for _, t := range o.Tags {
		if r.Active[t] {
			return true
		}
		if t == "*" {
			star = true
		} else {
			other = true
		}
	}
	return star && !other
}

type funcReport struct {
	Key       string
	Obls      int
	Trivial   int
	Err       string
	Contracts []string
}

func (r *Run) Do(keys []string) int {
	var all []*Obligation
	var reports []*funcReport
	engineErr := false
	if c := r.W.blockRangeConstants(); len(c) > 0 {
		// the term simplifier treats 32-bit constants in the spec-temporary block range as block ids
		fmt.Fprintf(os.Stderr, "govc: 32-bit integer constants in the reserved block-id range [0x4000000, 0x8000000): %v\n", c)
		engineErr = true
	}
	for _, k := range keys {
		fi := r.W.Funcs[k]
		if fi == nil {
			fmt.Fprintf(os.Stderr, "govc: no contract for %s\n", k)
			return 2
		}
		rep := &funcReport{Key: k}
		var x *Exec
		ncases := 1
		var arity []int
		for mask := 0; mask < ncases; mask++ {
			x = newExec(r.W, fi, r.activeFor(fi))
			x.splitRet = r.Split
			x.caseMask = mask
			// decode the case number in the mixed radix given by the split arities
			m := mask
			for _, a := range arity {
				x.caseIdx = append(x.caseIdx, m%a)
				m /= a
			}
			clearFacts()
			err := x.verifyFunc()
			clearFacts()
			if err != nil {
				rep.Err = err.Error()
				fmt.Fprintln(os.Stderr, "govc:", err)
				all = append(all, bindingFailure(r.W, fi, k, err))
				break
			}
			if mask == 0 && x.nSplits > 0 {
				arity = x.splitArity
				ncases = 1
				for _, a := range arity {
					ncases *= a
				}
				if ncases > 256 {
					fmt.Fprintf(os.Stderr, "govc: %s: too many cases (%d)\n", k, ncases)
					engineErr = true
					break
				}
			}
			for _, o := range x.Obls {
				if r.Only != "" && !strings.Contains(o.Name, r.Only) {
					continue
				}
				if o.Kind == "cover" && mask != 0 {
					continue
				}
				if r.keepFor(fi, o) {
					all = append(all, o)
					rep.Obls++
				}
			}
		}
		// relational laws of this function (second pass: fragments + substitution)
		if rep.Err == "" && len(fi.C.Laws) > 0 {
			lx := newExec(r.W, fi, r.activeFor(fi))
			lx.lawMode = true
			clearFacts()
			if err := lx.verifyFunc(); err != nil {
				rep.Err = err.Error()
				fmt.Fprintln(os.Stderr, "govc:", err)
				all = append(all, bindingFailure(r.W, fi, k, err))
			}
			for _, o := range lx.Obls {
				if r.Only != "" && !strings.Contains(o.Name, r.Only) {
					continue
				}
				if r.keepFor(fi, o) {
					all = append(all, o)
					rep.Obls++
				}
			}
			for c := range lx.usedContracts {
				x.usedContracts[c] = true
			}
		}
		rep.Trivial = x.counters["trivial"]
		for c := range x.usedContracts {
			rep.Contracts = append(rep.Contracts, c)
		}
		sort.Strings(rep.Contracts)
		reports = append(reports, rep)
	}
	// package-level scan (C04, isolation): no function other than init writes a package-level variable
	if r.Prop == "C04" || r.Prop == "" {
		for _, v := range r.W.globalWriteScan() {
			all = append(all, v)
		}
	}
	if r.Explain {
		var ex []*Obligation
		for _, o := range all {
			cs := splitGoal(o.Goal, 0)
			if len(cs) <= 1 || o.Kind == "cover" || o.Kind == "law" {
				ex = append(ex, o)
				continue
			}
			for k, c := range cs {
				o2 := *o
				o2.Goal = c
				o2.Name = fmt.Sprintf("%s.c%d", o.Name, k+1)
				o2.Note = o.Note + fmt.Sprintf(" [conjunct %d]", k+1)
				ex = append(ex, &o2)
			}
		}
		all = ex
	}
	tGen := time.Since(r.T0).Seconds() - r.LoadSecs
	if r.ListOnly {
		for _, o := range all {
			fmt.Printf("%-70s %-14s %v %s\n", o.Name, o.Kind, o.Tags, o.Pos)
		}
		return 0
	}
	os.RemoveAll(r.OutDir)
	t1 := time.Now()
	results := solveAll(all, r.OutDir, r.Timeout, r.Tier == "thorough", r.Jobs)
	tSolve := time.Since(t1).Seconds()
	bad := 0
	bySolver := map[string]int{}
	var cpu float64
	for _, res := range results {
		cpu += res.Secs
		if res.OK() {
			bySolver[res.Solver]++
		} else {
			bad++
		}
		if r.Verbose || !res.OK() {
			mark := "ok  "
			if !res.OK() {
				mark = "FAIL"
			}
			fmt.Printf("%s %-72s %-8s %5.2fs %s %s\n", mark, res.O.Name, res.Status, res.Secs, res.O.Pos, strings.Join(res.Tried, " "))
		}
	}
	fmt.Printf("govc: %d functions, %d obligations, %d not discharged; load %.1fs gen %.1fs solve %.1fs (solver cpu %.1fs) %v\n",
		len(keys), len(all), bad, r.LoadSecs, tGen, tSolve, cpu, bySolver)
	code := r.finish(keys, reports, results, engineErr, tGen, tSolve, cpu, bySolver)
	return code
}

func writeJSON(path string, v interface{}) error {
	b, err := json.MarshalIndent(v, "", " ")
	if err != nil {
		return err
	}
	os.MkdirAll(filepath.Dir(path), 0755)
	return os.WriteFile(path, append(b, '\n'), 0644)
}

// globalWriteScan returns one (already failed) obligation per store to package-level state outside init,
// and one trivially true summary obligation when there is none.
func (w *World) globalWriteScan() []*Obligation {
	var out []*Obligation
	scanned := 0
	var keys []string
	for k := range w.AllFns {
		keys = append(keys, k)
	}
	sort.Strings(keys)
	for _, k := range keys {
		fn := w.AllFns[k]
		if fn.Pkg != w.SPkg || strings.HasPrefix(fn.Name(), "init") || strings.HasPrefix(fn.Name(), "vc_") {
			continue
		}
		scanned++
		for _, b := range fn.Blocks {
			for _, in := range b.Instrs {
				st, ok := in.(*ssa.Store)
				if !ok {
					continue
				}
				v := st.Addr
				for {
					switch a := v.(type) {
					case *ssa.FieldAddr:
						v = a.X
						continue
					case *ssa.IndexAddr:
						v = a.X
						continue
					}
					break
				}
				if g, ok := v.(*ssa.Global); ok {
					out = append(out, &Obligation{Name: fmt.Sprintf("global-write-scan/%s/%s", k, g.Name()), Kind: "scan", Func: k, Tags: []string{"C04"},
						Pos: w.Fset.Position(st.Pos()), Guard: True(), Goal: False(), Expect: "unsat", Note: "store to package-level variable " + g.Name() + " outside init (breaks isolation of independent calls)", scanFail: true})
				}
			}
		}
	}
	w.scanned = scanned
	return out
}

// splitGoal: a goal as a list of goals whose conjunction it is: conjunctions are flattened, implications and
// disjunctions are distributed over one conjunctive member (recursively, bounded).
func splitGoal(t *Term, depth int) []*Term {
	if depth > 6 {
		return []*Term{t}
	}
	switch t.Op {
	case "and":
		var out []*Term
		for _, a := range t.Args {
			out = append(out, splitGoal(a, depth+1)...)
		}
		return out
	case "=>":
		var out []*Term
		for _, c := range splitGoal(t.Args[1], depth+1) {
			out = append(out, Implies(t.Args[0], c))
		}
		return out
	case "or":
		var rest []*Term
		var conj *Term
		for _, a := range t.Args {
			if a.Op == "and" && conj == nil {
				conj = a
			} else {
				rest = append(rest, a)
			}
		}
		if conj == nil {
			return []*Term{t}
		}
		var out []*Term
		for _, c := range conj.Args {
			for _, p := range splitGoal(c, depth+1) {
				out = append(out, Or(append(append([]*Term{}, rest...), p)...))
			}
		}
		if len(out) > 48 {
			return []*Term{t}
		}
		return out
	}
	return []*Term{t}
}

// blockRangeConstants: 32-bit integer constants of the program that fall into the block-id range reserved for
// spec temporaries (the simplifier's block rules would misread them); must be empty.
func (w *World) blockRangeConstants() []string {
	var out []string
	seen := map[string]bool{}
	for _, fn := range w.AllFns {
		for _, b := range fn.Blocks {
			for _, in := range b.Instrs {
				for _, op := range in.Operands(nil) {
					c, ok := (*op).(*ssa.Const)
					if !ok || c.Value == nil {
						continue
					}
					bt, ok := c.Type().Underlying().(*types.Basic)
					if !ok || (bt.Kind() != types.Int32 && bt.Kind() != types.Uint32) {
						continue
					}
					if v, exact := constant.Uint64Val(constant.ToInt(c.Value)); exact && v >= 0x4000000 && v < 0x8000000 {
						s := fmt.Sprintf("%s: %d", fn.Name(), v)
						if !seen[s] {
							seen[s] = true
							out = append(out, s)
						}
					}
				}
			}
		}
	}
	sort.Strings(out)
	return out
}

// bindingFailure: the contract of a function no longer applies to its code (a loop without invariant, a clause
// naming a local that does not exist any more, a construct outside the supported subset). On the unchanged tree
// this never happens (the checks pass there), so it is the consequence of a change to the function: none of its
// obligations can be generated, hence none is discharged. Reported as one undischarged obligation.
func bindingFailure(w *World, fi *FuncInfo, key string, err error) *Obligation {
	o := &Obligation{Name: key + "/contract-applies", Kind: "binding", Func: key, Guard: True(), Goal: False(), Expect: "unsat",
		Note: "the contract of " + key + " no longer applies to its code, so none of its obligations is discharged: " + err.Error(), scanFail: true}
	if fi != nil && fi.Fn != nil {
		o.Pos = w.Fset.Position(fi.Fn.Pos())
	}
	return o
}

// activeFor: the property tags active while function fi is verified: the property of this check, plus every
// property Y for which fi carries a clause tagged [Y,*]. Such a clause is assumed by every check; to be sure a
// check never rests on an unproved assumption about a function it covers, each check that covers fi proves fi's
// [Y,*] clauses too (with fi's [Y] support clauses switched on).
func (r *Run) activeFor(fi *FuncInfo) map[string]bool {
	if r.Active == nil {
		return nil
	}
	out := map[string]bool{}
	for k, v := range r.Active {
		out[k] = v
	}
	add := func(cs []*Clause) {
		for _, c := range cs {
			star := false
			for _, t := range c.Tags {
				if t == "*" {
					star = true
				}
			}
			if star {
				for _, t := range c.Tags {
					if t != "*" && t != "leaf" {
						out[t] = true
					}
				}
			}
		}
	}
	add(fi.C.Requires)
	add(fi.C.Ensures)
	for _, lc := range fi.C.Loops {
		add(lc.Invs)
	}
	return out
}

func (r *Run) keepFor(fi *FuncInfo, o *Obligation) bool {
	if o.Kind == "cover" || r.Active == nil || len(o.Tags) == 0 {
		return true
	}
	act := r.activeFor(fi)
	for _, t := range o.Tags {
		if act[t] {
			return true
		}
	}
	star, other := false, false
	for _, t := range o.Tags {
		if t == "*" {
			star = true
		} else {
			other = true
		}
	}
	return star && !other
}
