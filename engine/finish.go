package main

func (r *Run) finish(keys []string, reports []*funcReport, results []*Result, engineErr bool, tGen, tSolve, cpu float64, bySolver map[string]int) int {
	if engineErr {
		return 2
	}
	for _, res := range results {
		if !res.OK() {
			return 1
		}
	}
	return 0
}
