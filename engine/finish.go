package main

// Verdict, known findings, replay files and evidence.

import (
	"encoding/json"
	"fmt"
	"os"
	"path/filepath"
	"sort"
	"strings"
	"time"
)

type KnownFinding struct {
	Property   string `json:"property"`
	Obligation string `json:"obligation"`
	What       string `json:"what"`
	Witness    string `json:"witness,omitempty"`
}

type FixedEntry struct {
	Property string `json:"property"`
	Commit   string `json:"commit"`
	What     string `json:"what"`
}

type KnownFile struct {
	Findings []KnownFinding `json:"findings"`
	Fixed    []FixedEntry   `json:"fixed"`
}

func loadKnown(path string) *KnownFile {
	kf := &KnownFile{}
	b, err := os.ReadFile(path)
	if err != nil {
		return kf
	}
	if err := json.Unmarshal(b, kf); err != nil {
		fmt.Fprintf(os.Stderr, "govc: cannot parse %s: %v\n", path, err)
	}
	return kf
}

type ReplayFile struct {
	Property   string            `json:"property"`
	Obligation string            `json:"obligation"`
	Kind       string            `json:"kind"`
	Function   string            `json:"function"`
	Position   string            `json:"position"`
	Clause     string            `json:"clause"`
	Status     string            `json:"solver_status"`
	Solvers    []string          `json:"solvers_tried"`
	Output     string            `json:"solver_output"`
	SMTFile    string            `json:"smt_file"`
	SMT        string            `json:"smt,omitempty"`
	Model      map[string]string `json:"model,omitempty"`
	TestSource string            `json:"replay_test_source,omitempty"`
	SpecSource string            `json:"generated_spec_functions,omitempty"` // the contract clauses as Go functions (needed to re-run the test)
	TestOutput string            `json:"replay_test_output,omitempty"`
	Reproduced bool              `json:"reproduced_on_real_code"`
	Note       string            `json:"note"`
}

var trustedBase = []string{
	"T1 golang.org/x/tools/go/ssa v0.29.0 (naive form) reflects the semantics of the compiled Go code; int is 64 bit",
	"T2 the govc engine (/verif/engine): cell layout, operator translation, state merging, loop cutting, frame generation",
	"T3 the SMT solvers z3 5.1.0, cvc5 1.0.3, z3 4.8.12 (thorough tier: two must agree)",
	"T4 paper arguments lifting per-iteration / per-call obligations to whole runs (DESIGN.md 4.7)",
}

var baseAssumptions = []string{
	"A-LOG logging wrappers (slog) have no effect on parser-visible state",
	"A-ALIAS distinct pointer/slice parameters denote disjoint memory (read-only byte buffers may overlap)",
	"A-LIMIT len(buf) <= 65535 (documented limit); slice capacities < 2^32 elements",
	"A-STR []byte(\"literal\") is modelled as a read-only view of the literal's bytes",
	"integers are exact fixed-width bit-vectors (no mathematical-integer abstraction)",
}

func (r *Run) finish(keys []string, reports []*funcReport, results []*Result, engineErr bool, tGen, tSolve, cpu float64, bySolver map[string]int) int {
	prop := r.Prop
	if prop == "" {
		prop = "dev"
	}
	kf := loadKnown(r.KnownFile)
	known := map[string]KnownFinding{}
	for _, k := range kf.Findings {
		if k.Property == prop {
			known[k.Obligation] = k
		}
	}
	var violations []*Result
	var knownHit []KnownFinding
	discharged, covers := 0, 0
	var slowest []*Result
	for _, res := range results {
		if res.O.Kind == "cover" {
			covers++
		}
		if res.OK() {
			discharged++
			slowest = append(slowest, res)
			continue
		}
		if k, ok := known[res.O.Name]; ok && res.O.Kind != "cover" {
			knownHit = append(knownHit, k)
			continue
		}
		violations = append(violations, res)
	}
	sort.Slice(slowest, func(i, j int) bool { return slowest[i].Secs > slowest[j].Secs })
	for _, k := range knownHit {
		fmt.Printf("KNOWN-FINDING: property=%s %s: %s\n", prop, k.Obligation, k.What)
	}
	code := 0
	if engineErr {
		code = 2
		fmt.Println("govc: engine self-check failed (a function under contract is outside the supported subset or a contract does not bind); no verdict")
	}
	nviol := 0
	for _, v := range violations {
		if v.O.Kind == "cover" {
			// vacuity guard failed: hypotheses contradictory -> engine/contract problem, not a property violation
			fmt.Printf("govc: vacuity guard %s is %s (expected sat): contradictory hypotheses; no verdict\n", v.O.Name, v.Status)
			if code == 0 {
				code = 2
			}
			continue
		}
		nviol++
		rf := r.makeReplay(prop, v)
		path := filepath.Join(r.ReplayDir, fmt.Sprintf("%s-%s.json", prop, safeFile(v.O.Name)))
		writeJSON(path, rf)
		suffix := ""
		if !rf.Reproduced {
			suffix = " no-failing-input-found"
		}
		fmt.Printf("VIOLATION property=%s replay=%s obligation=%s status=%s at %s%s\n", prop, path, v.O.Name, v.Status, v.O.Pos, suffix)
		code = 1
	}
	if r.Evidence != "" {
		r.writeEvidence(prop, keys, reports, results, discharged, nviol, len(knownHit), covers, tGen, tSolve, cpu, bySolver, slowest, engineErr)
	}
	return code
}

func (r *Run) makeReplay(prop string, v *Result) *ReplayFile {
	rf := &ReplayFile{Property: prop, Obligation: v.O.Name, Kind: v.O.Kind, Function: v.O.Func, Position: v.O.Pos.String(), Clause: v.O.Note,
		Status: v.Status, Solvers: v.Tried, Output: truncate(v.Output, 4000), SMTFile: v.File}
	if b, err := os.ReadFile(v.File); err == nil && len(b) < 400000 {
		rf.SMT = string(b)
	}
	if v.Status == "sat" {
		r.tryReplay(v, rf)
	} else {
		rf.Note = "the solver returned no model (" + v.Status + "); the obligation discharged on the unchanged tree and no longer does"
	}
	return rf
}

func truncate(s string, n int) string {
	if len(s) > n {
		return s[:n] + "..."
	}
	return s
}

func (r *Run) writeEvidence(prop string, keys []string, reports []*funcReport, results []*Result, discharged, nviol, nknown, covers int, tGen, tSolve, cpu float64, bySolver map[string]int, slowest []*Result, engineErr bool) {
	var samples []interface{}
	kinds := map[string]int{}
	confirmed := 0
	for i, res := range results {
		kinds[res.O.Kind]++
		if res.OK() && len(res.Agreed) >= 2 {
			confirmed++
		}
		if i%max(1, len(results)/12) == 0 && len(samples) < 14 {
			samples = append(samples, map[string]interface{}{
				"obligation": res.O.Name, "kind": res.O.Kind, "position": res.O.Pos.String(), "clause": res.O.Note,
				"status": res.Status, "solver": res.Solver, "secs": round2(res.Secs), "smt_file": res.File,
			})
		}
	}
	var fns []interface{}
	assumedContracts := map[string]bool{}
	for _, rep := range reports {
		fns = append(fns, map[string]interface{}{"function": rep.Key, "obligations": rep.Obls, "trivially_true_sites": rep.Trivial, "error": rep.Err, "callee_contracts_used": rep.Contracts})
		for _, c := range rep.Contracts {
			assumedContracts[c] = true
		}
	}
	var trusted []string
	for k, fi := range r.W.Funcs {
		if fi.C.Trusted && assumedContracts[k] {
			trusted = append(trusted, k)
		}
	}
	sort.Strings(trusted)
	var slow []interface{}
	for i, s := range slowest {
		if i >= 5 {
			break
		}
		slow = append(slow, map[string]interface{}{"obligation": s.O.Name, "secs": round2(s.Secs), "solver": s.Solver})
	}
	assumptions := append([]string{}, baseAssumptions...)
	for _, t := range trusted {
		assumptions = append(assumptions, "assumed (trusted, not verified) contract of external function "+t)
	}
	assumptions = append(assumptions, trustedBase...)
	ev := map[string]interface{}{
		"property_id": prop,
		"tier":        r.Tier,
		"seed":        seedFromEnv(),
		"level":       "proof",
		"coverage": map[string]interface{}{
			"obligations":            len(results),
			"discharged":             discharged,
			"vacuity_guards":         covers,
			"confirmed_by_second_solver": confirmed,
			"known_findings":         nknown,
			"not_discharged":         len(results) - discharged,
			"checker_cmd":            strings.Join(os.Args, " "),
			"trusted_base":           trustedBase,
			"functions_under_contract": fns,
			"obligation_kinds":       kinds,
			"discharged_by_solver":   bySolver,
			"solver_cpu_s":           round2(cpu),
			"solve_wall_s":           round2(tSolve),
			"vcgen_s":                round2(tGen),
			"load_s":                 round2(r.LoadSecs),
			"slowest":                slow,
			"samples":                samples,
			"trusted_external_contracts": trusted,
			"functions_not_under_contract": r.W.notUnderContract(),
			"global_write_scan_functions": r.W.scanned,
			"engine_error":           engineErr,
			"explanation":            "Every obligation is generated on this run from the go/ssa of /repo's working tree and the //@ contracts in /repo/verif_contracts*.go; 'discharged' counts obligations for which a solver returned the expected answer (unsat; sat for vacuity guards).",
		},
		"assumptions": assumptions,
		"wall_s":      round2(time.Since(r.T0).Seconds()),
		"violations":  nviol,
	}
	writeJSON(r.Evidence, ev)
}

func round2(f float64) float64 { return float64(int(f*100+0.5)) / 100 }

func seedFromEnv() int {
	var s int
	fmt.Sscanf(os.Getenv("VERIF_SEED"), "%d", &s)
	return s
}

// notUnderContract lists the package's own functions (not the generated spec functions) that have no
// contract: nothing is claimed about them, except through inlining into functions that have one.
func (w *World) notUnderContract() []string {
	var out []string
	specFiles := map[string]bool{}
	for k, fn := range w.AllFns {
		if fn.Pkg != w.SPkg || strings.HasPrefix(fn.Name(), "vc_") || strings.Contains(k, ".") && !strings.HasPrefix(k, "(") {
			continue
		}
		pos := w.Fset.Position(fn.Pos())
		if strings.Contains(pos.Filename, "verif_") || strings.Contains(pos.Filename, "zz_vc_") || strings.HasSuffix(pos.Filename, "_test.go") {
			specFiles[pos.Filename] = true
			continue
		}
		if _, ok := w.Funcs[k]; !ok {
			out = append(out, k)
		}
	}
	sort.Strings(out)
	return out
}
