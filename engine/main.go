package main

import (
	"path/filepath"
	"flag"
	"runtime/debug"
	"runtime/pprof"
	"fmt"
	"os"
	"sort"
	"strings"
	"time"
)

func main() {
	repo := flag.String("repo", "/repo", "repository under verification")
	funcs := flag.String("func", "", "comma separated function keys to verify (default: by -prop)")
	prop := flag.String("prop", "", "property id (activates clauses tagged with it plus untagged support clauses)")
	allTags := flag.Bool("alltags", false, "activate every clause regardless of tag")
	out := flag.String("out", "/verif/out/dev", "directory for SMT files")
	timeout := flag.Duration("timeout", 30*time.Second, "per solver timeout")
	jobs := flag.Int("j", 10, "parallel solver jobs")
	verbose := flag.Bool("v", false, "list every obligation")
	split := flag.Bool("splitret", true, "check postconditions per return statement")
	tier := flag.String("tier", "quick", "quick or thorough")
	evid := flag.String("evidence", "", "evidence file to write")
	listOnly := flag.Bool("list", false, "only list obligations")
	known := flag.String("known", "/verif/known-findings.json", "known findings file")
	replayDir := flag.String("replaydir", "/verif/replay", "where replay files go")
	explain := flag.Bool("explain", true, "split conjunctive goals into one obligation per conjunct (debugging aid)")
	only := flag.String("only", "", "only obligations whose name contains this string")
	dumpfn := flag.String("dumpfn", "", "print the SSA of a function and exit")
	flag.Parse()
	if env := os.Getenv("VERIF_TIER"); env != "" && *tier == "quick" {
		*tier = env
	}
	if pf := os.Getenv("GOVC_PROF"); pf != "" {
		f, _ := os.Create(pf)
		pprof.StartCPUProfile(f)
		go func() {
			time.Sleep(240 * time.Second)
			pprof.StopCPUProfile()
			f.Close()
			os.Exit(3)
		}()
	}
	// the hash-consed term table is large and long-lived: collect rarely (bounded by a soft memory limit)
	debug.SetGCPercent(1000)
	debug.SetMemoryLimit(24 << 30)
	t0 := time.Now()
	w, err := loadWorld(*repo, nil)
	if err != nil {
		fmt.Fprintln(os.Stderr, "govc: engine error:", err)
		if *prop != "" && *evid != "" {
			// the contracts no longer type-check against the code (they do on the unchanged tree): a function or
			// field a clause names has changed; nothing can be generated, so nothing is discharged
			os.MkdirAll(*replayDir, 0755)
			path := filepath.Join(*replayDir, *prop+"-contracts__do_not_apply.json")
			writeJSON(path, map[string]interface{}{"property": *prop, "obligation": "contracts/apply-to-code", "kind": "binding",
				"solver_status": "contract-does-not-apply", "reproduced_on_real_code": false,
				"note": "the contracts in /repo/verif_contracts.go no longer bind to /repo's code; no obligation could be generated: " + err.Error()})
			writeJSON(*evid, map[string]interface{}{"property_id": *prop, "tier": *tier, "seed": seedFromEnv(), "level": "proof", "wall_s": round2(time.Since(t0).Seconds()), "violations": 1,
				"coverage": map[string]interface{}{"obligations": 0, "discharged": 0, "not_discharged": 1, "engine_error": err.Error()}, "assumptions": baseAssumptions})
			fmt.Printf("VIOLATION property=%s replay=%s obligation=contracts/apply-to-code status=contract-does-not-apply no-failing-input-found\n", *prop, path)
			os.Exit(1)
		}
		os.Exit(2)
	}
	if err := w.dumpTables(); err != nil {
		fmt.Fprintln(os.Stderr, "govc: engine error:", err)
		os.Exit(2)
	}
	if *dumpfn != "" {
		if f := w.AllFns[*dumpfn]; f != nil {
			f.WriteTo(os.Stdout)
		} else if f := w.SPkg.Func(*dumpfn); f != nil {
			f.WriteTo(os.Stdout)
		} else {
			fmt.Println("no such function")
		}
		os.Exit(0)
	}
	tLoad := time.Since(t0)
	var active map[string]bool
	if *prop != "" && !*allTags {
		active = map[string]bool{*prop: true}
	}
	var keys []string
	if *funcs != "" {
		keys = strings.Split(*funcs, ",")
	} else {
		keys = w.selectFuncs(*prop)
	}
	sort.Strings(keys)
	run := &Run{W: w, Prop: *prop, Tier: *tier, Active: active, OutDir: *out, Timeout: *timeout, Jobs: *jobs, Verbose: *verbose,
		Split: *split, Evidence: *evid, ListOnly: *listOnly, KnownFile: *known, ReplayDir: *replayDir, Explain: *explain, Only: *only, T0: t0, LoadSecs: tLoad.Seconds()}
	os.Exit(run.Do(keys))
}
