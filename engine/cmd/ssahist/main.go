package main

import (
	"go/types"
	"fmt"
	"sort"

	"golang.org/x/tools/go/packages"
	"golang.org/x/tools/go/ssa"
	"golang.org/x/tools/go/ssa/ssautil"
)

func main() {
	cfg := &packages.Config{Mode: packages.LoadAllSyntax, Dir: "/repo", BuildFlags: []string{"-tags=verif"}}
	pkgs, err := packages.Load(cfg, ".")
	if err != nil {
		panic(err)
	}
	_, spkgs := ssautil.AllPackages(pkgs, ssa.NaiveForm)
	var p *ssa.Package
	for _, sp := range spkgs {
		if sp != nil && (sp.Pkg.Name() == "sipsp" || sp.Pkg.Name() == "bytescase") {
			sp.Build()
			if sp.Pkg.Name() == "sipsp" {
				p = sp
			}
		}
	}
	hist := map[string]int{}
	callees := map[string]int{}
	var fns []*ssa.Function
	for _, m := range p.Members {
		if f, ok := m.(*ssa.Function); ok {
			fns = append(fns, f)
			fns = append(fns, f.AnonFuncs...)
		}
		if t, ok := m.(*ssa.Type); ok {
			for _, tt := range []interface{ NumMethods() int }{} {
				_ = tt
			}
			ms := p.Prog.MethodSets.MethodSet(t.Type())
			for i := 0; i < ms.Len(); i++ {
				if f := p.Prog.MethodValue(ms.At(i)); f != nil && f.Blocks != nil {
					fns = append(fns, f)
				}
			}
			ms = p.Prog.MethodSets.MethodSet(pointerTo(t))
			for i := 0; i < ms.Len(); i++ {
				if f := p.Prog.MethodValue(ms.At(i)); f != nil && f.Blocks != nil && f.Synthetic == "" {
					fns = append(fns, f)
				}
			}
		}
	}
	seen := map[*ssa.Function]bool{}
	for _, f := range fns {
		if seen[f] {
			continue
		}
		seen[f] = true
		nb, ni := 0, 0
		for _, b := range f.Blocks {
			nb++
			for _, in := range b.Instrs {
				ni++
				k := fmt.Sprintf("%T", in)
				switch x := in.(type) {
				case *ssa.UnOp:
					k += " " + x.Op.String()
				case *ssa.BinOp:
					k += " " + x.Op.String()
				case *ssa.Call:
					if x.Call.IsInvoke() {
						k += " invoke"
						callees["invoke "+x.Call.Method.Name()]++
					} else if sc := x.Call.StaticCallee(); sc != nil {
						callees[sc.String()]++
					} else if b, ok := x.Call.Value.(*ssa.Builtin); ok {
						callees["builtin "+b.Name()]++
					} else {
						callees["dynamic "+x.Call.Value.String()]++
					}
				case *ssa.Convert:
					k += " " + x.X.Type().Underlying().String() + "->" + x.Type().Underlying().String()
				}
				hist[k]++
			}
		}
		fmt.Printf("FUNC %-40s blocks=%d instrs=%d\n", f.String(), nb, ni)
	}
	var ks []string
	for k := range hist {
		ks = append(ks, k)
	}
	sort.Strings(ks)
	for _, k := range ks {
		fmt.Printf("%6d %s\n", hist[k], k)
	}
	ks = nil
	for k := range callees {
		ks = append(ks, k)
	}
	sort.Strings(ks)
	for _, k := range ks {
		fmt.Printf("CALL %4d %s\n", callees[k], k)
	}
}

func pointerTo(t *ssa.Type) types.Type { return types.NewPointer(t.Type()) }
