package main

import (
	"fmt"
	"os"

	"golang.org/x/tools/go/packages"
	"golang.org/x/tools/go/ssa"
	"golang.org/x/tools/go/ssa/ssautil"
)

func main() {
	cfg := &packages.Config{Mode: packages.LoadAllSyntax, Dir: "/repo", BuildFlags: []string{"-tags=verif"}}
	pkgs, err := packages.Load(cfg, ".")
	if err != nil {
		panic(err)
	}
	prog, spkgs := ssautil.AllPackages(pkgs, ssa.NaiveForm)
	_ = prog; for _, sp := range spkgs { if sp != nil && (sp.Pkg.Name() == "sipsp" || sp.Pkg.Name() == "bytescase") { sp.Build() } }
	p := spkgs[0]
	for _, name := range os.Args[1:] {
		f := p.Func(name)
		if f == nil {
			fmt.Println("no func", name)
			continue
		}
		f.WriteTo(os.Stdout)
	}
}
