package main

// Relational laws (DESIGN.md section 4). A law relates two runs of the same function. Because every
// loop-free fragment is a function of its inputs (callee results are uninterpreted functions of their read
// footprint), the second run is obtained by substitution in the terms of the first: there is no second program.
//
// EXT(buf): run A sees len(buf) = L, run B sees L2 >= L, same bytes, same start state. If A's verdict is not
// "more bytes", B returns the same results and leaves the same object.  Obligations, per fragment F
// (entry fragment, and one iteration fragment per loop, started from the shared havoc'd configuration):
//   ret:   F_A returns with verdict != MoreBytes  ==>  F_B returns, same results, same modified cells
//   head:  F_A reaches loop head h                ==>  F_B reaches h in the same configuration
// By induction on A's iterations the runs stay in lock step until A returns.

import (
	"fmt"
	"go/types"
	"regexp"
	"sort"
	"strings"

	"golang.org/x/tools/go/ssa"
)

type fragment struct {
	name   string
	ld     *loopData
	rets   []retInfo
	arr    map[*ssa.BasicBlock][]*State
	nAss   int // assumptions available at the end of the fragment
	calls0 int // index into x.calls at the start of the fragment
	calls1 int
}

var lawRe = regexp.MustCompile(`^(EXT|RES|EXTSCAN|RESSCAN)\(([^)]*)\)\s*(?:when\s+(.*))?$`)

type lawSpec struct {
	kind   string
	params []string
	when   string
	clause *Clause
}

func parseLaw(c *Clause) (*lawSpec, error) {
	m := lawRe.FindStringSubmatch(strings.TrimSpace(c.Text))
	if m == nil {
		return nil, fmt.Errorf("bad law clause %q", c.Text)
	}
	ls := &lawSpec{kind: m[1], when: m[3], clause: c}
	for _, p := range strings.Split(m[2], ",") {
		if p = strings.TrimSpace(p); p != "" {
			ls.params = append(ls.params, p)
		}
	}
	return ls, nil
}

const errMoreBytes = 3 // ErrHdrMoreBytes

// verdictCell: index (in the flattened result tuple) of the ErrorHdr result, or -1
func verdictCell(fi *FuncInfo) int {
	off := 0
	for _, t := range fi.RTypes {
		if nt, ok := t.(*types.Named); ok && nt.Obj().Name() == "ErrorHdr" {
			return off
		}
		off += sizeOf(t)
	}
	return -1
}

func paramIndex(fi *FuncInfo, name string) int {
	for i, n := range fi.PNames {
		if n == name {
			return i
		}
	}
	return -1
}

func (x *Exec) regionObs(st *State) []*Term {
	var out []*Term
	for _, r := range x.regions {
		if r.Const > 0 {
			for k := range r.Sorts {
				h := x.heapOf(st, r.Sorts[k])
				out = append(out, Select(Select(h, BVAdd(r.Blk, BV(int64(r.Tags[k]), 32))), BVAdd(r.Off, BV(int64(r.Offs[k]), 64))))
			}
			continue
		}
		type tk struct {
			t int
			s *Sort
		}
		seen := map[tk]bool{}
		for k, s := range r.Sorts {
			if seen[tk{r.Tags[k], s}] {
				continue
			}
			seen[tk{r.Tags[k], s}] = true
			out = append(out, Select(x.heapOf(st, s), BVAdd(r.Blk, BV(int64(r.Tags[k]), 32))))
		}
	}
	return out
}

// configObs: every local cell of the frame plus the modifies regions
func (x *Exec) configObs(fr *Frame, st *State, ld *loopData) []*Term {
	type ai struct {
		al *ssa.Alloc
		id int
	}
	var as []ai
	for al, id := range fr.allocs {
		if ld != nil && ld.blocks[al.Block()] {
			continue // declared inside the loop: re-created in every iteration, dead at the loop head
		}
		as = append(as, ai{al, id})
	}
	sort.Slice(as, func(i, j int) bool { return as[i].id < as[j].id })
	var out []*Term
	for _, a := range as {
		if cells, ok := st.Loc[a.id]; ok {
			out = append(out, cells...)
			continue
		}
		t := a.al.Type().Underlying().(*types.Pointer).Elem()
		x.spec++
		out = append(out, x.load(st, []*Term{BV(int64(a.id), 32), BV(0, 64)}, t, 0)...)
		x.spec--
	}
	return append(out, x.regionObs(st)...)
}

func (x *Exec) mergeRets(rets []retInfo) (*State, Val) {
	var ps []predState
	for _, r := range rets {
		ps = append(ps, predState{nil, r.st})
	}
	m := x.mergeStates(ps)
	rgs := make([]*Term, len(rets))
	for k, r := range rets {
		rgs[k] = r.st.G
	}
	_, rel := stripCommon(rgs)
	v := rets[len(rets)-1].val
	for k := len(rets) - 2; k >= 0; k-- {
		v = mergeVals(rel[k], rets[k].val, v)
	}
	return m, v
}

func (x *Exec) mergeArr(sts []*State) *State {
	var ps []predState
	for _, s := range sts {
		ps = append(ps, predState{nil, s})
	}
	return x.mergeStates(ps)
}

// havocLoopState: the state at a loop head in an arbitrary iteration (everything the loop may write is
// fresh, the invariant is assumed). Same as loopHead without obligations.
func (x *Exec) havocLoopState(fr *Frame, ld *loopData, st *State) {
	x.curLoop = ld
	defer func() { x.curLoop = nil }()
	lc := x.loopContract(ld)
	if lc == nil {
		x.fail("loop %d of %s has no invariant", ld.ord, x.TopKey)
	}
	x.analyzeLoopWrites(fr, ld)
	type ai struct {
		al *ssa.Alloc
		id int
	}
	var as []ai
	for al := range ld.modAlloc {
		if id, ok := fr.allocs[al]; ok {
			as = append(as, ai{al, id})
		}
	}
	sort.Slice(as, func(i, j int) bool { return as[i].id < as[j].id })
	for _, a := range as {
		t := a.al.Type().Underlying().(*types.Pointer).Elem()
		name := a.al.Comment
		if name == "" {
			name = a.al.Name()
		}
		fc := x.freshCells(fmt.Sprintf("L%d.%s", ld.ord, name), t)
		fc = x.normPtrs(st, t, fc)
		if _, isLoc := st.Loc[a.id]; isLoc {
			st.Loc[a.id] = fc
		} else {
			mo, mt := memOffsOf(t), memTagsOf(t)
			for k, c := range fc {
				x.storeHeapCell(st, BV(int64(a.id+mt[k]), 32), BV(int64(mo[k]), 64), c)
			}
		}
		x.typeInv(st, t, fc)
	}
	if ld.heapW {
		for ri, r := range x.regions {
			x.havocRegion(st, r, fmt.Sprintf("L%d.m%d", ld.ord, ri+1))
		}
	}
	for k, g := range x.Top.LoopInv[ld.ord] {
		c := lc.Invs[k]
		if !x.tagOn(c.Tags) {
			continue
		}
		t := x.evalGen(g, st, x.genArgs(g, x.entryArgs, nil, x.olds, fr, st))
		x.assume(st.G, t.C[0])
	}
}

// fragments: the entry fragment and one iteration fragment per loop
func (x *Exec) fragments(st *State, args []Val) (*Frame, []*fragment) {
	fn := x.Top.Fn
	ci := analyzeCFG(fn)
	fr := &Frame{fn: fn, vals: map[ssa.Value]Val{}, allocs: map[*ssa.Alloc]int{}, args: args, top: true, frag: &fragOut{arr: map[*ssa.BasicBlock][]*State{}}}
	var out []*fragment
	f0 := &fragment{name: "entry", calls0: len(x.calls)}
	f0.rets = x.runBody(fr, st)
	f0.arr = fr.frag.arr
	f0.nAss = len(x.Assumes)
	f0.calls1 = len(x.calls)
	out = append(out, f0)
	done := map[*ssa.BasicBlock]bool{}
	for progress := true; progress; {
		progress = false
		for _, h := range ci.headers {
			if done[h] {
				continue
			}
			var arrs []*State
			for _, f := range out {
				arrs = append(arrs, f.arr[h]...)
			}
			if len(arrs) == 0 {
				continue
			}
			done[h] = true
			progress = true
			ld := ci.loops[h]
			sth := x.mergeArr(arrs).clone()
			// the guard of an arbitrary iteration: we did enter the loop
			x.havocLoopState(fr, ld, sth)
			f := &fragment{name: fmt.Sprintf("loop%d", ld.ord), ld: ld, calls0: len(x.calls)}
			fr.frag = &fragOut{arr: map[*ssa.BasicBlock][]*State{}}
			fr.fragStart = h
			f.rets = x.runBody(fr, sth)
			f.arr = fr.frag.arr
			f.nAss = len(x.Assumes)
			f.calls1 = len(x.calls)
			out = append(out, f)
		}
	}
	return fr, out
}

func (x *Exec) proveLaws() {
	fi := x.Top
	st, args := x.prologue()
	var laws []*lawSpec
	for _, c := range fi.C.Laws {
		if !x.tagOn(c.Tags) {
			continue
		}
		ls, err := parseLaw(c)
		if err != nil {
			x.fail("%v", err)
		}
		laws = append(laws, ls)
	}
	if len(laws) == 0 {
		return
	}
	nEntry := len(x.Assumes)
	fr, frags := x.fragments(st, args)
	for _, ls := range laws {
		switch ls.kind {
		case "EXT", "EXTSCAN":
			x.lawEXT(fr, frags, ls, args, nEntry)
		default:
			x.fail("law %s not implemented", ls.kind)
		}
	}
}

type lawEnv struct {
	sub  map[*Term]*Term
	memo map[*Term]*Term
}

func (e *lawEnv) B(t *Term) *Term { return Subst(t, e.sub, e.memo) }

func (x *Exec) whenTerm(fi *FuncInfo, ls *lawSpec, args []Val, st *State) *Term {
	if ls.when == "" {
		return True()
	}
	g := fi.LawWhen[ls.clause]
	if g == nil {
		x.fail("law 'when' condition of %s was not generated", fi.Key)
	}
	return x.evalGen(g, st, x.genArgs(g, args, nil, nil, nil, st)).C[0]
}

func (x *Exec) lawEXT(fr *Frame, frags []*fragment, ls *lawSpec, args []Val, nEntry int) {
	fi := x.Top
	if len(ls.params) != 1 {
		x.fail("EXT(buf) takes the buffer parameter")
	}
	bi := paramIndex(fi, ls.params[0])
	if bi < 0 {
		x.fail("EXT: no parameter %s", ls.params[0])
	}
	L := args[bi].C[2]
	L2 := Var(L.Name+"@long", BV64)
	env := &lawEnv{sub: map[*Term]*Term{L: L2}, memo: map[*Term]*Term{}}
	vc := verdictCell(fi)
	if ls.kind == "EXTSCAN" {
		vc = -1
	}
	st0 := &State{G: True(), Loc: map[int][]*Term{}, Heap: map[*Sort]*Term{}}
	when := x.whenTerm(fi, ls, args, st0)
	for _, f := range frags {
		var extra []*Term
		extra = append(extra, SLE(L, L2), when)
		for _, a := range x.Assumes[:f.nAss] {
			b := env.B(a)
			if b != a {
				extra = append(extra, b)
			}
		}
		extra = append(extra, x.calleeLawHyps(f, env, "EXT")...)
		mk := func(site string, goal *Term, note string) {
			o := &Obligation{Name: fmt.Sprintf("%s/law:%s/%s/%s", x.TopKey, ls.kind, f.name, site), Kind: "law", Func: x.TopKey, Tags: ls.clause.Tags,
				Guard: True(), Goal: goal, NAssume: f.nAss, Extra: extra, Expect: "unsat", ex: x, Note: note}
			if f.ld != nil {
				o.Pos = x.W.Fset.Position(f.ld.header.Instrs[0].Pos())
			} else {
				o.Pos = x.W.Fset.Position(fi.Fn.Pos())
			}
			x.Obls = append(x.Obls, o)
		}
		if len(f.rets) > 0 {
			ms, mv := x.mergeRets(f.rets)
			obs := append(append([]*Term{}, mv.C...), x.regionObs(ms)...)
			var definitive *Term
			if vc >= 0 {
				definitive = Neq(mv.C[vc], BV(errMoreBytes, 32))
			} else {
				// scanners: "suspended" means the scan reached the end of the (short) buffer
				definitive = SLT(mv.C[0], L)
			}
			var eqs []*Term
			eqs = append(eqs, env.B(ms.G))
			for _, t := range obs {
				eqs = append(eqs, Eq(t, env.B(t)))
			}
			mk("ret", Implies(And(ms.G, definitive), And(eqs...)),
				"EXT: a definitive verdict on the short buffer is the verdict on every extension (same results, same object)")
		}
		var hs []*ssa.BasicBlock
		for h := range f.arr {
			hs = append(hs, h)
		}
		sort.Slice(hs, func(i, j int) bool { return hs[i].Index < hs[j].Index })
		for _, h := range hs {
			ma := x.mergeArr(f.arr[h])
			cfg := x.configObs(fr, ma, analyzeCFG(fi.Fn).loops[h])
			var eqs []*Term
			eqs = append(eqs, env.B(ma.G))
			for _, t := range cfg {
				if t == L {
					continue // the local copy of the buffer header: its length is what differs by construction
				}
				eqs = append(eqs, Eq(t, env.B(t)))
			}
			mk(fmt.Sprintf("head%d", analyzeCFG(fi.Fn).loops[h].ord), Implies(ma.G, And(eqs...)),
				"EXT: while the short run continues, the long run is in the same configuration")
		}
	}
	_ = nEntry
}

// calleeLawHyps: instances of the (already proved) laws of the callees, at the pairs (call in run A, same call in run B)
func (x *Exec) calleeLawHyps(f *fragment, env *lawEnv, kind string) []*Term {
	var out []*Term
	for _, c := range x.calls[f.calls0:f.calls1] {
		var ls *lawSpec
		for _, cl := range c.FI.C.Laws {
			if l, err := parseLaw(cl); err == nil && (l.kind == kind || l.kind == kind+"SCAN") && x.tagOn(cl.Tags) {
				ls = l
			}
		}
		if ls == nil {
			continue
		}
		bi := paramIndex(c.FI, ls.params[0])
		if bi < 0 || bi >= len(c.ArgStart) {
			continue
		}
		lenIdx := c.ArgStart[bi] + 2
		var prem []*Term
		for k, t := range c.FP {
			if k == lenIdx {
				prem = append(prem, SLE(t, env.B(t)))
				continue
			}
			prem = append(prem, Eq(t, env.B(t)))
		}
		if ls.when != "" {
			st0 := &State{G: True(), Loc: map[int][]*Term{}, Heap: map[*Sort]*Term{}}
			prem = append(prem, x.whenTerm(c.FI, ls, c.Args, st0))
		}
		vcell := verdictCell(c.FI)
		var definitive *Term
		if ls.kind == kind+"SCAN" || vcell < 0 {
			definitive = SLT(c.Res.C[0], c.FP[lenIdx])
		} else {
			definitive = Neq(c.Res.C[vcell], BV(errMoreBytes, 32))
		}
		var concl []*Term
		for _, o := range c.Outs {
			concl = append(concl, Eq(o, env.B(o)))
		}
		out = append(out, Implies(And(append(prem, c.Guard, definitive)...), And(concl...)))
	}
	return out
}
