package main

// Relational laws (DESIGN.md section 4). A law relates two runs of the same function. Because every
// loop-free fragment is a function of its inputs (callee results are uninterpreted functions of their read
// footprint), the second run is obtained by substitution in the terms of the first: there is no second program.
//
// EXT(buf): run A sees len(buf) = L, run B sees L2 >= L, same bytes, same start state. If A's verdict is not
// "more bytes", B returns the same results and leaves the same object.  Obligations, per fragment F
// (entry fragment, and one iteration fragment per loop, started from the shared havoc'd configuration):
//   ret:   F_A returns with verdict != MoreBytes  ==>  F_B returns, same results, same modified cells
//   head:  F_A reaches loop head h                ==>  F_B reaches h in the same configuration
// By induction on A's iterations the runs stay in lock step until A returns.

import (
	"fmt"
	"os"
	"go/types"
	"regexp"
	"sort"
	"strings"

	"golang.org/x/tools/go/ssa"
)

type fragment struct {
	name   string
	ld     *loopData
	rets   []retInfo
	arr    map[*ssa.BasicBlock][]*State
	nAss   int // assumptions available at the end of the fragment
	calls0 int // index into x.calls at the start of the fragment
	calls1 int
	headVars []*Term // loop fragments: the fresh configuration at the loop head, aligned with configObs
	nAss0    int     // assumptions before the fragment's own (for loop fragments: before the invariant)
}

var lawRe = regexp.MustCompile(`^(EXT|RES|EXTSCAN|RESSCAN|SHIFT)\(([^)]*)\)\s*(?:ignoring\s+(\S+)\s*)?(?:positions\s+([A-Za-z0-9_, ]+?)\s*)?(?:when\s+(.*))?$`)

type lawSpec struct {
	kind   string
	params []string
	when   string
	ignore string // "p.field": an internal bookkeeping cell that is dead inside the loops and on error returns
	positions map[string]bool // SHIFT: locals and results that are buffer positions
	clause *Clause
}

func parseLaw(c *Clause) (*lawSpec, error) {
	m := lawRe.FindStringSubmatch(strings.TrimSpace(c.Text))
	if m == nil {
		return nil, fmt.Errorf("bad law clause %q", c.Text)
	}
	ls := &lawSpec{kind: m[1], when: m[5], ignore: m[3], clause: c, positions: map[string]bool{}}
	for _, p := range strings.Split(m[4], ",") {
		if p = strings.TrimSpace(p); p != "" {
			ls.positions[p] = true
		}
	}
	for _, p := range strings.Split(m[2], ",") {
		if p = strings.TrimSpace(p); p != "" {
			ls.params = append(ls.params, p)
		}
	}
	return ls, nil
}

const errMoreBytes = 3 // ErrHdrMoreBytes

// verdictCell: index (in the flattened result tuple) of the ErrorHdr result, or -1
func verdictCell(fi *FuncInfo) int {
	off := 0
	for _, t := range fi.RTypes {
		if nt, ok := t.(*types.Named); ok && nt.Obj().Name() == "ErrorHdr" {
			return off
		}
		off += sizeOf(t)
	}
	return -1
}

func paramIndex(fi *FuncInfo, name string) int {
	for i, n := range fi.PNames {
		if n == name {
			return i
		}
	}
	return -1
}

func (x *Exec) regionObs(st *State) []*Term {
	var out []*Term
	for _, r := range x.regions {
		if r.Const > 0 && !(r.ElemT != nil && containsArray(r.ElemT)) {
			for k := range r.Sorts {
				h := x.heapOf(st, r.Sorts[k])
				out = append(out, Select(Select(h, BVAdd(r.Blk, BV(int64(r.Tags[k]), 32))), BVAdd(r.Off, BV(int64(r.Offs[k]), 64))))
			}
			continue
		}
		type tk struct {
			t int
			s *Sort
		}
		seen := map[tk]bool{}
		for k, s := range r.Sorts {
			if seen[tk{r.Tags[k], s}] {
				continue
			}
			seen[tk{r.Tags[k], s}] = true
			out = append(out, Select(x.heapOf(st, s), BVAdd(r.Blk, BV(int64(r.Tags[k]), 32))))
		}
	}
	return out
}

// configObs: every local cell of the frame plus the modifies regions
func (x *Exec) configObs(fr *Frame, st *State, ld *loopData) []*Term {
	type ai struct {
		al *ssa.Alloc
		id int
	}
	var as []ai
	var live map[*ssa.Alloc]bool
	if ld != nil {
		live = liveAt(fr.fn, ld.header)
	}
	for al, id := range fr.allocs {
		if ld != nil && ld.blocks[al.Block()] {
			continue // declared inside the loop: re-created in every iteration, dead at the loop head
		}
		if live != nil && regLike(al) && !live[al] {
			continue // dead at the loop head: cannot influence the rest of the run
		}
		as = append(as, ai{al, id})
	}
	sort.Slice(as, func(i, j int) bool { return as[i].id < as[j].id })
	var out []*Term
	for _, a := range as {
		if cells, ok := st.Loc[a.id]; ok {
			out = append(out, cells...)
			continue
		}
		t := a.al.Type().Underlying().(*types.Pointer).Elem()
		x.spec++
		out = append(out, x.load(st, []*Term{BV(int64(a.id), 32), BV(0, 64)}, t, 0)...)
		x.spec--
	}
	return append(out, x.regionObs(st)...)
}

func (x *Exec) mergeRets(rets []retInfo) (*State, Val) {
	var ps []predState
	for _, r := range rets {
		ps = append(ps, predState{nil, r.st})
	}
	m := x.mergeStates(ps)
	rgs := make([]*Term, len(rets))
	for k, r := range rets {
		rgs[k] = r.st.G
	}
	_, rel := stripCommon(rgs)
	v := rets[len(rets)-1].val
	for k := len(rets) - 2; k >= 0; k-- {
		v = mergeVals(rel[k], rets[k].val, v)
	}
	return m, v
}

func (x *Exec) mergeArr(sts []*State) *State {
	var ps []predState
	for _, s := range sts {
		ps = append(ps, predState{nil, s})
	}
	return x.mergeStates(ps)
}

// havocLoopState: the state at a loop head in an arbitrary iteration (everything the loop may write is
// fresh, the invariant is assumed). Same as loopHead without obligations.
func (x *Exec) havocLoopState(fr *Frame, ld *loopData, st *State) {
	x.curLoop = ld
	defer func() { x.curLoop = nil }()
	lc := x.loopContract(ld)
	if lc == nil {
		x.fail("loop %d of %s has no invariant", ld.ord, x.TopKey)
	}
	x.analyzeLoopWrites(fr, ld)
	type ai struct {
		al *ssa.Alloc
		id int
	}
	var as []ai
	for al := range ld.modAlloc {
		if id, ok := fr.allocs[al]; ok {
			as = append(as, ai{al, id})
		}
	}
	sort.Slice(as, func(i, j int) bool { return as[i].id < as[j].id })
	for _, a := range as {
		t := a.al.Type().Underlying().(*types.Pointer).Elem()
		name := a.al.Comment
		if name == "" {
			name = a.al.Name()
		}
		fc := x.freshCells(fmt.Sprintf("L%d.%s", ld.ord, name), t)
		fc = x.normPtrs(st, t, fc)
		if _, isLoc := st.Loc[a.id]; isLoc {
			st.Loc[a.id] = fc
		} else {
			mo, mt := memOffsOf(t), memTagsOf(t)
			for k, c := range fc {
				x.storeHeapCell(st, BV(int64(a.id+mt[k]), 32), BV(int64(mo[k]), 64), c)
			}
		}
		x.typeInv(st, t, fc)
	}
	if ld.heapW {
		for ri, r := range x.regions {
			x.havocRegion(st, r, fmt.Sprintf("L%d.m%d", ld.ord, ri+1))
		}
	}
	x.lastHeadVars = x.configObs(fr, st, ld)
	for k, g := range x.Top.LoopInv[ld.ord] {
		c := lc.Invs[k]
		if !x.tagOn(c.Tags) {
			continue
		}
		t := x.evalGen(g, st, x.genArgs(g, x.entryArgs, nil, x.olds, fr, st))
		x.assume(st.G, t.C[0])
	}
}

// fragments: the entry fragment and one iteration fragment per loop
func (x *Exec) fragments(st *State, args []Val) (*Frame, []*fragment) {
	fn := x.Top.Fn
	ci := analyzeCFG(fn)
	fr := &Frame{fn: fn, vals: map[ssa.Value]Val{}, allocs: map[*ssa.Alloc]int{}, args: args, top: true, frag: &fragOut{arr: map[*ssa.BasicBlock][]*State{}}}
	var out []*fragment
	f0 := &fragment{name: "entry", calls0: len(x.calls)}
	f0.rets = x.runBody(fr, st)
	f0.arr = fr.frag.arr
	f0.nAss = len(x.Assumes)
	f0.calls1 = len(x.calls)
	out = append(out, f0)
	done := map[*ssa.BasicBlock]bool{}
	for progress := true; progress; {
		progress = false
		for _, h := range ci.headers {
			if done[h] {
				continue
			}
			var arrs []*State
			for _, f := range out {
				arrs = append(arrs, f.arr[h]...)
			}
			if len(arrs) == 0 {
				continue
			}
			done[h] = true
			progress = true
			ld := ci.loops[h]
			sth := x.mergeArr(arrs).clone()
			// the guard of an arbitrary iteration: we did enter the loop
			n0 := len(x.Assumes)
			x.havocLoopState(fr, ld, sth)
			f := &fragment{name: fmt.Sprintf("loop%d", ld.ord), ld: ld, calls0: len(x.calls), headVars: x.lastHeadVars, nAss0: n0}
			fr.frag = &fragOut{arr: map[*ssa.BasicBlock][]*State{}}
			fr.fragStart = h
			f.rets = x.runBody(fr, sth)
			f.arr = fr.frag.arr
			f.nAss = len(x.Assumes)
			f.calls1 = len(x.calls)
			out = append(out, f)
		}
	}
	return fr, out
}

func (x *Exec) proveLaws() {
	fi := x.Top
	st, args := x.prologue()
	var laws []*lawSpec
	for _, c := range fi.C.Laws {
		if !x.tagOn(c.Tags) {
			continue
		}
		ls, err := parseLaw(c)
		if err != nil {
			x.fail("%v", err)
		}
		laws = append(laws, ls)
	}
	if len(laws) == 0 {
		return
	}
	nEntry := len(x.Assumes)
	fr, frags := x.fragments(st, args)
	for _, ls := range laws {
		switch ls.kind {
		case "EXT", "EXTSCAN":
			x.lawEXT(fr, frags, ls, args, nEntry)
		case "RES", "RESSCAN":
			x.lawRES(fr, frags, ls, args, nEntry)
		case "SHIFT":
			x.lawSHIFT(fr, frags, ls, args, nEntry)
		default:
			x.fail("law %s not implemented", ls.kind)
		}
	}
}

type lawEnv struct {
	sub  map[*Term]*Term
	memo map[*Term]*Term
}

func (e *lawEnv) B(t *Term) *Term { return Subst(t, e.sub, e.memo) }

func (x *Exec) whenTerm(fi *FuncInfo, ls *lawSpec, args []Val, st *State) *Term {
	if ls.when == "" {
		return True()
	}
	g := fi.LawWhen[ls.clause]
	if g == nil {
		x.fail("law 'when' condition of %s was not generated", fi.Key)
	}
	return x.evalGen(g, st, x.genArgs(g, args, nil, nil, nil, st)).C[0]
}

func (x *Exec) lawEXT(fr *Frame, frags []*fragment, ls *lawSpec, args []Val, nEntry int) {
	fi := x.Top
	if len(ls.params) != 1 {
		x.fail("EXT(buf) takes the buffer parameter")
	}
	bi := paramIndex(fi, ls.params[0])
	if bi < 0 {
		x.fail("EXT: no parameter %s", ls.params[0])
	}
	L := args[bi].C[2]
	L2 := Var(L.Name+"@long", BV64)
	env := &lawEnv{sub: map[*Term]*Term{L: L2}, memo: map[*Term]*Term{}}
	vc := verdictCell(fi)
	if ls.kind == "EXTSCAN" {
		vc = -1
	}
	st0 := &State{G: True(), Loc: map[int][]*Term{}, Heap: map[*Sort]*Term{}}
	when := x.whenTerm(fi, ls, args, st0)
	for _, f := range frags {
		var extra []*Term
		extra = append(extra, SLE(L, L2), when)
		for _, a := range x.Assumes[:f.nAss] {
			b := env.B(a)
			if b != a {
				extra = append(extra, b)
			}
		}
		extra = append(extra, x.calleeLawHyps(f, env, "EXT")...)
		mk := func(site string, goal *Term, note string) {
			o := &Obligation{Name: fmt.Sprintf("%s/law:%s/%s/%s", x.TopKey, ls.kind, f.name, site), Kind: "law", Func: x.TopKey, Tags: ls.clause.Tags,
				Guard: True(), Goal: goal, NAssume: f.nAss, Extra: extra, Expect: "unsat", ex: x, Note: note}
			if f.ld != nil {
				o.Pos = x.W.Fset.Position(f.ld.header.Instrs[0].Pos())
			} else {
				o.Pos = x.W.Fset.Position(fi.Fn.Pos())
			}
			x.Obls = append(x.Obls, o)
		}
		if len(f.rets) > 0 {
			ms, mv := x.mergeRets(f.rets)
			obs := append(append([]*Term{}, mv.C...), x.regionObs(ms)...)
			var definitive *Term
			if vc >= 0 {
				definitive = Neq(mv.C[vc], BV(errMoreBytes, 32))
			} else {
				// scanners: "suspended" means the scan reached the end of the (short) buffer
				definitive = SLT(mv.C[0], L)
			}
			var eqs []*Term
			eqs = append(eqs, env.B(ms.G))
			for _, t := range obs {
				eqs = append(eqs, Eq(t, env.B(t)))
			}
			mk("ret", Implies(And(ms.G, definitive), And(eqs...)),
				"EXT: a definitive verdict on the short buffer is the verdict on every extension (same results, same object)")
		}
		var hs []*ssa.BasicBlock
		for h := range f.arr {
			hs = append(hs, h)
		}
		sort.Slice(hs, func(i, j int) bool { return hs[i].Index < hs[j].Index })
		for _, h := range hs {
			ma := x.mergeArr(f.arr[h])
			cfg := x.configObs(fr, ma, analyzeCFG(fi.Fn).loops[h])
			var eqs []*Term
			eqs = append(eqs, env.B(ma.G))
			for _, t := range cfg {
				if t == L {
					continue // the local copy of the buffer header: its length is what differs by construction
				}
				eqs = append(eqs, Eq(t, env.B(t)))
			}
			mk(fmt.Sprintf("head%d", analyzeCFG(fi.Fn).loops[h].ord), Implies(ma.G, And(eqs...)),
				"EXT: while the short run continues, the long run is in the same configuration")
		}
	}
	_ = nEntry
}

// calleeLawHyps: instances of the (already proved) laws of the callees, at the pairs (call in run A, same call in run B)
func (x *Exec) calleeLawHyps(f *fragment, env *lawEnv, kind string) []*Term {
	var out []*Term
	for _, c := range x.calls[f.calls0:f.calls1] {
		var ls *lawSpec
		for _, cl := range c.FI.C.Laws {
			if l, err := parseLaw(cl); err == nil && (l.kind == kind || l.kind == kind+"SCAN") && x.tagOn(cl.Tags) {
				ls = l
			}
		}
		if ls == nil {
			continue
		}
		bi := paramIndex(c.FI, ls.params[0])
		if bi < 0 || bi >= len(c.ArgStart) {
			continue
		}
		lenIdx := c.ArgStart[bi] + 2
		var prem []*Term
		for k, t := range c.FP {
			if k == lenIdx {
				prem = append(prem, SLE(t, env.B(t)))
				continue
			}
			prem = append(prem, Eq(t, env.B(t)))
		}
		if ls.when != "" {
			st0 := &State{G: True(), Loc: map[int][]*Term{}, Heap: map[*Sort]*Term{}}
			prem = append(prem, x.whenTerm(c.FI, ls, c.Args, st0))
		}
		vcell := verdictCell(c.FI)
		var definitive *Term
		if ls.kind == kind+"SCAN" || vcell < 0 {
			definitive = SLT(c.Res.C[0], c.FP[lenIdx])
		} else {
			definitive = Neq(c.Res.C[vcell], BV(errMoreBytes, 32))
		}
		var concl []*Term
		for _, o := range c.Outs {
			concl = append(concl, Eq(o, env.B(o)))
		}
		out = append(out, Implies(And(append(prem, c.Guard, definitive)...), And(concl...)))
	}
	return out
}

// ---------------------------------------------------------------------------------------------------------
// RES(buf, offs): if the run on the short buffer suspends (verdict MoreBytes) at offset n1 leaving the object
// in state S1, then the call resumed from (n1, S1) on the long buffer behaves like the call on the long
// buffer from the original (offs, S). Obligations, per fragment F in which run A returns MoreBytes:
//   pre:   the resumed call satisfies the precondition
//   meet:  let E be the entry fragment of the resumed call (long buffer, offs := n1, object := S1) and B the
//          same fragment F on the long buffer. Then one of
//            (a) E reaches the loop head in exactly the configuration A suspended in,
//            (b) B's outcome equals the resumed run's outcome after its first iteration (or E's own return),
//            (c) B's next configuration is the configuration E reaches.
// With the EXT lock-step (runs A and B share the configuration until A returns) this gives, by induction,
// that the resumed and the one-shot run coincide from there on.

// heapSubst: substitution of the base heap variables by themselves with the regions' cells replaced by obs
// (obs in regionObs order).
func (x *Exec) heapSubst(obs []*Term) map[*Term]*Term {
	cur := map[*Sort]*Term{}
	get := func(s *Sort) *Term {
		if h, ok := cur[s]; ok {
			return h
		}
		h := x.baseHeapOf(s)
		cur[s] = h
		return h
	}
	i := 0
	for _, r := range x.regions {
		if r.Const > 0 && !(r.ElemT != nil && containsArray(r.ElemT)) {
			for k := range r.Sorts {
				s := r.Sorts[k]
				h := get(s)
				b := BVAdd(r.Blk, BV(int64(r.Tags[k]), 32))
				cur[s] = Store(h, b, Store(Select(h, b), BVAdd(r.Off, BV(int64(r.Offs[k]), 64)), obs[i]))
				i++
			}
			continue
		}
		type tk struct {
			t int
			s *Sort
		}
		seen := map[tk]bool{}
		for k, s := range r.Sorts {
			if seen[tk{r.Tags[k], s}] {
				continue
			}
			seen[tk{r.Tags[k], s}] = true
			h := get(s)
			cur[s] = Store(h, BVAdd(r.Blk, BV(int64(r.Tags[k]), 32)), obs[i])
			i++
		}
	}
	m := map[*Term]*Term{}
	for s, h := range cur {
		m[x.baseHeapOf(s)] = h
	}
	return m
}

type outcome struct {
	retG  *Term
	retO  []*Term // results ++ region observables
	arrG  map[*ssa.BasicBlock]*Term
	arrC  map[*ssa.BasicBlock][]*Term
	heads []*ssa.BasicBlock
}

func (x *Exec) outcomeOf(fr *Frame, f *fragment) *outcome {
	o := &outcome{retG: False(), arrG: map[*ssa.BasicBlock]*Term{}, arrC: map[*ssa.BasicBlock][]*Term{}}
	if len(f.rets) > 0 {
		ms, mv := x.mergeRets(f.rets)
		o.retG = ms.G
		o.retO = append(append([]*Term{}, mv.C...), x.regionObs(ms)...)
	}
	ci := analyzeCFG(x.Top.Fn)
	for h, sts := range f.arr {
		ma := x.mergeArr(sts)
		o.arrG[h] = ma.G
		o.arrC[h] = x.configObs(fr, ma, ci.loops[h])
		o.heads = append(o.heads, h)
	}
	sort.Slice(o.heads, func(i, j int) bool { return o.heads[i].Index < o.heads[j].Index })
	return o
}

func (o *outcome) subst(e *lawEnv) *outcome {
	n := &outcome{retG: e.B(o.retG), arrG: map[*ssa.BasicBlock]*Term{}, arrC: map[*ssa.BasicBlock][]*Term{}, heads: o.heads}
	for _, t := range o.retO {
		n.retO = append(n.retO, e.B(t))
	}
	for h, g := range o.arrG {
		n.arrG[h] = e.B(g)
		for _, t := range o.arrC[h] {
			n.arrC[h] = append(n.arrC[h], e.B(t))
		}
	}
	return n
}

func eqAll(a, b []*Term, skip *Term) *Term {
	if len(a) != len(b) {
		return False()
	}
	var es []*Term
	for i := range a {
		if skip != nil && (a[i] == skip || b[i] == skip) {
			continue
		}
		if a[i].S != b[i].S {
			return False()
		}
		es = append(es, Eq(a[i], b[i]))
	}
	return And(es...)
}

// sameOutcome: both return with the same observables, or both reach the same head in the same configuration
func sameOutcome(p, q *outcome, skipP, skipQ *Term) *Term {
	var alts []*Term
	if len(p.retO) > 0 && len(q.retO) > 0 {
		alts = append(alts, And(p.retG, q.retG, eqAll(p.retO, q.retO, nil)))
	}
	for _, h := range p.heads {
		if qc, ok := q.arrC[h]; ok {
			alts = append(alts, And(p.arrG[h], q.arrG[h], eqCfg(p.arrC[h], qc, skipP, skipQ)))
		}
	}
	return Or(alts...)
}

// eqCfg compares configurations, ignoring the cell that holds the buffer length (it differs by construction)
func eqCfg(a, b []*Term, skipA, skipB *Term) *Term {
	if len(a) != len(b) {
		return False()
	}
	var es []*Term
	for i := range a {
		if (skipA != nil && a[i] == skipA) || (skipB != nil && b[i] == skipB) || a[i] == skipB || b[i] == skipA {
			continue
		}
		if a[i].S != b[i].S {
			return False()
		}
		es = append(es, Eq(a[i], b[i]))
	}
	return And(es...)
}

func (x *Exec) lawRES(fr *Frame, frags []*fragment, ls *lawSpec, args []Val, nEntry int) {
	curIgnExec = x
	defer func() { curIgnExec = nil }()
	fi := x.Top
	if len(ls.params) != 2 {
		x.fail("RES(buf, offs) takes the buffer and the offset parameter")
	}
	bi, oi := paramIndex(fi, ls.params[0]), paramIndex(fi, ls.params[1])
	if bi < 0 || oi < 0 {
		x.fail("RES: unknown parameter")
	}
	L := args[bi].C[2]
	L2 := Var(L.Name+"@long", BV64)
	offsVar := args[oi].C[0]
	vc := verdictCell(fi)
	if ls.kind == "RESSCAN" {
		vc = -1
	}
	st0 := &State{G: True(), Loc: map[int][]*Term{}, Heap: map[*Sort]*Term{}}
	when := x.whenTerm(fi, ls, args, st0)
	envB := &lawEnv{sub: map[*Term]*Term{L: L2}, memo: map[*Term]*Term{}}
	f0 := frags[0]
	out0 := x.outcomeOf(fr, f0)
	ign := x.ignoredCell(ls, args)
	fragByHead := map[*ssa.BasicBlock]*fragment{}
	outByHead := map[*ssa.BasicBlock]*outcome{}
	for _, f := range frags[1:] {
		fragByHead[f.ld.header] = f
		outByHead[f.ld.header] = x.outcomeOf(fr, f)
	}
	isReq := map[*Term]bool{}
	for _, t := range x.reqTerms {
		isReq[t] = true
	}
	for fidx, f := range frags {
		var oA *outcome
		if fidx == 0 {
			oA = out0
		} else {
			oA = outByHead[f.ld.header]
		}
		if len(oA.retO) == 0 {
			continue
		}
		n1 := oA.retO[0]
		nres := len(oA.retO) - len(x.regionObs(st0))
		_ = nres
		var suspended *Term
		if vc >= 0 {
			suspended = Eq(oA.retO[vc], BV(errMoreBytes, 32))
		} else {
			suspended = Eq(oA.retO[0], L)
		}
		// number of result cells
		nr := 0
		for _, t := range fi.RTypes {
			nr += sizeOf(t)
		}
		S1 := oA.retO[nr:]
		// resumed entry: long buffer, offs := n1, object := S1
		subE := map[*Term]*Term{L: L2, offsVar: n1}
		for k, v := range x.heapSubst(S1) {
			subE[k] = v
		}
		envE := &lawEnv{sub: subE, memo: map[*Term]*Term{}}
		E := out0.subst(envE)
		B := oA.subst(envB)
		// hypotheses
		var extra []*Term
		extra = append(extra, SLE(L, L2), when, envB.B(when))
		for _, a := range x.Assumes[:f.nAss] {
			if b := envB.B(a); b != a {
				extra = append(extra, b)
			}
		}
		for _, a := range x.Assumes[:f0.nAss] {
			if isReq[a] {
				continue // the resumed call's precondition is an obligation, not a hypothesis
			}
			if b := envE.B(a); b != a {
				extra = append(extra, b)
			}
		}
		extra = append(extra, x.calleeLawHyps(f, envB, "EXT")...)
		extra = append(extra, x.calleeRESHyps(f, envB, envE, f0)...)
		// second step of the resumed run: one iteration from the configuration E reaches
		var alts []*Term
		for _, h := range E.heads {
			fh := fragByHead[h]
			if fh == nil {
				continue
			}
			subR := map[*Term]*Term{L: L2}
			for i, hv := range fh.headVars {
				if i < len(E.arrC[h]) && hv.Op == "var" && hv != L {
					subR[hv] = E.arrC[h][i]
				}
			}
			envR := &lawEnv{sub: subR, memo: map[*Term]*Term{}}
			R2 := outByHead[h].subst(envR)
			for _, a := range x.Assumes[fh.nAss0:fh.nAss] {
				if b := envR.B(a); b != a {
					extra = append(extra, Implies(E.arrG[h], b))
				}
			}
			extra = append(extra, x.calleeRESHyps(fh, envB, envR, fh)...)
			if os.Getenv("GOVC_DEBUG") != "" {
				extra = append(extra, Eq(Var("probe!"+f.name+"!R2.retG", BoolS), R2.retG))
				for k, t := range R2.retO {
					extra = append(extra, Eq(Var(fmt.Sprintf("probe!%s!R2.ret%d", f.name, k), t.S), t))
				}
				for k, t := range E.arrC[h] {
					if t.S.K != SArr {
						extra = append(extra, Eq(Var(fmt.Sprintf("probe!%s!E.cfg%d", f.name, k), t.S), t))
					}
				}
			}
			// (a) the resumed call is back in the configuration the short run suspended in
			if f.ld != nil && f.ld.header == h {
				alts = append(alts, And(E.arrG[h], eqCfgIgn(E.arrC[h], f.headVars, L2, L, ign)))
			}
			// (b) after one more iteration the two agree
			alts = append(alts, And(E.arrG[h], sameOutcomeIgn(B, R2, L2, L2, ign, vc)))
			// (c) the long run's next configuration is where the resumed call starts
			if bc, ok := B.arrC[h]; ok {
				alts = append(alts, And(E.arrG[h], B.arrG[h], eqCfgIgn(bc, E.arrC[h], L2, L2, ign)))
			}
		}
		// (b') the resumed call returns at once with what the long run returns / both reach the same head
		alts = append(alts, sameOutcomeIgn(B, E, L2, L2, ign, vc))
		mk := func(site string, goal *Term, note string) {
			o := &Obligation{Name: fmt.Sprintf("%s/law:%s/%s/%s", x.TopKey, ls.kind, f.name, site), Kind: "law", Func: x.TopKey, Tags: ls.clause.Tags,
				Guard: True(), Goal: goal, NAssume: f.nAss, Extra: extra, Expect: "unsat", ex: x, Note: note}
			if f.ld != nil {
				o.Pos = x.W.Fset.Position(f.ld.header.Instrs[0].Pos())
			} else {
				o.Pos = x.W.Fset.Position(fi.Fn.Pos())
			}
			x.Obls = append(x.Obls, o)
		}
		P := And(oA.retG, suspended)
		if os.Getenv("GOVC_DEBUG") != "" {
			probe := func(n string, t *Term) {
				extra = append(extra, Eq(Var("probe!"+f.name+"!"+n, t.S), t))
			}
			probe("B.retG", B.retG)
			probe("E.retG", E.retG)
			for _, h := range E.heads {
				probe("E.arrG", E.arrG[h])
				if g, ok := B.arrG[h]; ok {
					probe("B.arrG", g)
				}
			}
			for k, t := range B.retO {
				probe(fmt.Sprintf("B.ret%d", k), t)
			}
			for k, a := range alts {
				probe(fmt.Sprintf("alt%d", k), a)
			}
		}
		var pre []*Term
		for _, t := range x.reqTerms {
			pre = append(pre, envE.B(t))
		}
		mk("resume-pre", Implies(P, And(pre...)), "RES: the suspended state and offset satisfy the precondition of the resumed call")
		mk("meet", Implies(P, Or(alts...)), "RES: the resumed call and the one-shot call on the longer buffer meet within one iteration")
	}
	_ = nEntry
}

// calleeRESHyps: instances of the callees' RES laws for the call sites of fragment f: run A (short), run B
// (long, envB) and the resumed run (envY, whose arguments at this call site are the terms of fragment fy).
func (x *Exec) calleeRESHyps(f *fragment, envB, envY *lawEnv, fy *fragment) []*Term {
	var out []*Term
	for _, c := range x.calls[f.calls0:f.calls1] {
		var ls *lawSpec
		for _, cl := range c.FI.C.Laws {
			if l, err := parseLaw(cl); err == nil && (l.kind == "RES" || l.kind == "RESSCAN") && x.tagOn(cl.Tags) {
				ls = l
			}
		}
		if ls == nil || len(ls.params) != 2 {
			continue
		}
		bi, oi := paramIndex(c.FI, ls.params[0]), paramIndex(c.FI, ls.params[1])
		if bi < 0 || oi < 0 || bi >= len(c.ArgStart) || oi >= len(c.ArgStart) {
			continue
		}
		lenIdx := c.ArgStart[bi] + 2
		offIdx := c.ArgStart[oi]
		// object: a pointer parameter whose whole pointee is the callee's modifies set
		objStart, objN := -1, 0
		nr := 0
		for _, t := range c.FI.RTypes {
			nr += sizeOf(t)
		}
		nOutObj := len(c.Outs) - nr
		if nOutObj > 0 {
			for pi, t := range c.FI.PTypes {
				if pt, ok := t.Underlying().(*types.Pointer); ok && len(c.FI.C.Modifies) == 1 && strings.TrimSpace(c.FI.C.Modifies[0].Text) == "*"+c.FI.PNames[pi] {
					if sizeOf(pt.Elem()) == nOutObj {
						objStart, objN = c.ArgStart[pi]+2, nOutObj
					}
				}
			}
			if objStart < 0 {
				continue // cannot line up the object cells with the footprint
			}
		}
		vcell := verdictCell(c.FI)
		var suspended *Term
		if ls.kind == "RESSCAN" || vcell < 0 {
			suspended = Eq(c.Res.C[0], c.FP[lenIdx])
		} else {
			suspended = Eq(c.Res.C[vcell], BV(errMoreBytes, 32))
		}
		var prem []*Term
		prem = append(prem, c.Guard, suspended)
		for k, t := range c.FP {
			tb, ty := envB.B(t), envY.B(t)
			switch {
			case k == offIdx:
				prem = append(prem, Eq(ty, c.Res.C[0]))
			case objStart >= 0 && k >= objStart && k < objStart+objN:
				prem = append(prem, Eq(ty, c.Outs[k-objStart]))
			default:
				prem = append(prem, Eq(tb, ty))
			}
		}
		var concl []*Term
		for _, o := range c.Outs {
			concl = append(concl, Eq(envB.B(o), envY.B(o)))
		}
		out = append(out, Implies(And(prem...), And(concl...)))
	}
	_ = fy
	return out
}

// liveAt: the register-like local variables that are live on entry to block h (may be read before being
// written on some path from h).
var liveCache = map[*ssa.BasicBlock]map[*ssa.Alloc]bool{}

func liveAt(fn *ssa.Function, h *ssa.BasicBlock) map[*ssa.Alloc]bool {
	if r, ok := liveCache[h]; ok {
		return r
	}
	use := map[*ssa.BasicBlock]map[*ssa.Alloc]bool{}
	def := map[*ssa.BasicBlock]map[*ssa.Alloc]bool{}
	for _, b := range fn.Blocks {
		use[b] = map[*ssa.Alloc]bool{}
		def[b] = map[*ssa.Alloc]bool{}
		for _, in := range b.Instrs {
			switch i := in.(type) {
			case *ssa.UnOp:
				if al, ok := i.X.(*ssa.Alloc); ok && !def[b][al] {
					use[b][al] = true
				}
			case *ssa.Store:
				if al, ok := i.Addr.(*ssa.Alloc); ok && !use[b][al] {
					def[b][al] = true
				}
			case *ssa.MakeClosure:
				for _, bd := range i.Bindings {
					if al, ok := bd.(*ssa.Alloc); ok && !def[b][al] {
						use[b][al] = true
					}
				}
			}
		}
	}
	liveIn := map[*ssa.BasicBlock]map[*ssa.Alloc]bool{}
	for _, b := range fn.Blocks {
		liveIn[b] = map[*ssa.Alloc]bool{}
	}
	for changed := true; changed; {
		changed = false
		for i := len(fn.Blocks) - 1; i >= 0; i-- {
			b := fn.Blocks[i]
			for al := range use[b] {
				if !liveIn[b][al] {
					liveIn[b][al] = true
					changed = true
				}
			}
			for _, su := range b.Succs {
				for al := range liveIn[su] {
					if !def[b][al] && !liveIn[b][al] {
						liveIn[b][al] = true
						changed = true
					}
				}
			}
		}
	}
	for _, b := range fn.Blocks {
		liveCache[b] = liveIn[b]
	}
	return liveIn[h]
}

// ignoredCell: the heap cell named in "ignoring p.f" (as it appears in observables: a select term on the base
// heap at entry), after checking that the loops never read it.
func (x *Exec) ignoredCell(ls *lawSpec, args []Val) *ignoreSpec {
	if ls.ignore == "" {
		return nil
	}
	parts := strings.SplitN(ls.ignore, ".", 2)
	if len(parts) != 2 {
		x.fail("ignoring: want p.field")
	}
	pi := paramIndex(x.Top, parts[0])
	if pi < 0 {
		x.fail("ignoring: no parameter %s", parts[0])
	}
	pt, ok := x.Top.PTypes[pi].Underlying().(*types.Pointer)
	if !ok {
		x.fail("ignoring: %s is not a pointer", parts[0])
	}
	var paths []string
	cellPaths(pt.Elem(), "", &paths)
	idx := -1
	for k, p := range paths {
		if p == "."+parts[1] || strings.HasSuffix(p, "."+parts[1]) {
			idx = k
		}
	}
	if idx < 0 {
		x.fail("ignoring: no field %s", parts[1])
	}
	// deadness: no load of that field inside any loop of the function (and the field is not touched by callees
	// other than through whole-object contracts, which the frame/ensures account for)
	ci := analyzeCFG(x.Top.Fn)
	for _, ld := range ci.loops {
		for b := range ld.blocks {
			for _, in := range b.Instrs {
				if u, ok := in.(*ssa.UnOp); ok {
					if fa, ok := u.X.(*ssa.FieldAddr); ok {
						st := fa.X.Type().Underlying().(*types.Pointer).Elem().Underlying().(*types.Struct)
						if st.Field(fa.Field).Name() == parts[1] {
							x.fail("ignoring %s: the field is read inside a loop", ls.ignore)
						}
					}
				}
			}
		}
	}
	mo, mt := memOffsOf(pt.Elem()), memTagsOf(pt.Elem())
	return &ignoreSpec{blk: BVAdd(args[pi].C[0], BV(int64(mt[idx]), 32)), off: BVAdd(args[pi].C[1], BV(int64(mo[idx]), 64))}
}

type ignoreSpec struct{ blk, off *Term }

// isIgnored: is observable t (in some run) the content of the ignored cell? Observables of region cells are
// built as select(select(heap, blk), off); we compare the address part.
func (ig *ignoreSpec) positions(x *Exec) map[int]bool {
	out := map[int]bool{}
	if ig == nil {
		return out
	}
	i := 0
	for _, r := range x.regions {
		if r.Const > 0 && !(r.ElemT != nil && containsArray(r.ElemT)) {
			for k := range r.Sorts {
				if BVAdd(r.Blk, BV(int64(r.Tags[k]), 32)) == ig.blk && BVAdd(r.Off, BV(int64(r.Offs[k]), 64)) == ig.off {
					out[i] = true
				}
				i++
			}
			continue
		}
		type tk struct {
			t int
			s *Sort
		}
		seen := map[tk]bool{}
		for k, s := range r.Sorts {
			if !seen[tk{r.Tags[k], s}] {
				seen[tk{r.Tags[k], s}] = true
				i++
			}
		}
	}
	return out
}

var curIgnExec *Exec

// eqCfgIgn: configurations are local cells followed by the region observables; the ignored cell is skipped
func eqCfgIgn(a, b []*Term, skipA, skipB *Term, ig *ignoreSpec) *Term {
	if ig == nil || curIgnExec == nil {
		return eqCfg(a, b, skipA, skipB)
	}
	pos := ig.positions(curIgnExec)
	nreg := len(curIgnExec.regionObs(&State{G: True(), Loc: map[int][]*Term{}, Heap: map[*Sort]*Term{}}))
	if len(a) != len(b) {
		return False()
	}
	base := len(a) - nreg
	var es []*Term
	for i := range a {
		if i >= base && pos[i-base] {
			continue
		}
		if (skipA != nil && a[i] == skipA) || (skipB != nil && b[i] == skipB) || a[i] == skipB || b[i] == skipA {
			continue
		}
		if a[i].S != b[i].S {
			return False()
		}
		es = append(es, Eq(a[i], b[i]))
	}
	return And(es...)
}

// sameOutcomeIgn: like sameOutcome; on an error verdict the ignored bookkeeping cell is not compared
func sameOutcomeIgn(p, q *outcome, skipP, skipQ *Term, ig *ignoreSpec, vc int) *Term {
	if ig == nil || curIgnExec == nil {
		return sameOutcome(p, q, skipP, skipQ)
	}
	var alts []*Term
	if len(p.retO) > 0 && len(q.retO) > 0 && len(p.retO) == len(q.retO) {
		pos := ig.positions(curIgnExec)
		nreg := len(curIgnExec.regionObs(&State{G: True(), Loc: map[int][]*Term{}, Heap: map[*Sort]*Term{}}))
		base := len(p.retO) - nreg
		var es, esAll []*Term
		for i := range p.retO {
			e := Eq(p.retO[i], q.retO[i])
			esAll = append(esAll, e)
			if i >= base && pos[i-base] {
				continue
			}
			es = append(es, e)
		}
		isErr := True()
		if vc >= 0 {
			v := p.retO[vc]
			isErr = And(Neq(v, BV(0, 32)), Neq(v, BV(1, 32)), Neq(v, BV(errMoreBytes, 32)), Neq(v, BV(4, 32)))
		}
		alts = append(alts, And(p.retG, q.retG, Ite(isErr, And(es...), And(esAll...))))
	}
	for _, h := range p.heads {
		if qc, ok := q.arrC[h]; ok {
			alts = append(alts, And(p.arrG[h], q.arrG[h], eqCfgIgn(p.arrC[h], qc, skipP, skipQ, ig)))
		}
	}
	return Or(alts...)
}

// ---------------------------------------------------------------------------------------------------------
// SHIFT(buf, offs) positions p1, p2, ...: run B sees the same text K bytes further into its buffer: the slice
// header of buf is (off-K, len+K) over the same memory, so B's buf[j+K] is A's buf[j], preceded by K arbitrary
// bytes; B starts at offs+K. Claim: B returns what A returns, with every result named in `positions` moved
// by K and every other result equal. Obligations per fragment, by substitution (off := off-K, len := len+K,
// cap := cap+K, offs := offs+K, every positional configuration variable v := v+K):
//   ret:   F_A returns                 ==>  F_B returns, positional results + K, the others equal
//   head:  F_A reaches loop head h     ==>  F_B reaches h, positional configuration variables + K, others equal
// Only for functions that modify no object. Callee SHIFT laws are hypotheses at matching call sites.
func (x *Exec) lawSHIFT(fr *Frame, frags []*fragment, ls *lawSpec, args []Val, nEntry int) {
	fi := x.Top
	if len(ls.params) != 2 {
		x.fail("SHIFT(buf, offs) takes the buffer and the offset parameter")
	}
	bi, oi := paramIndex(fi, ls.params[0]), paramIndex(fi, ls.params[1])
	if bi < 0 || oi < 0 {
		x.fail("SHIFT: unknown parameter")
	}
	off, L, cp := args[bi].C[1], args[bi].C[2], args[bi].C[3]
	offsVar := args[oi].C[0]
	K := Var("shift!K", BV64)
	st0 := &State{G: True(), Loc: map[int][]*Term{}, Heap: map[*Sort]*Term{}}
	if len(x.regionObs(st0)) > 0 {
		x.fail("SHIFT: only for functions that modify no object")
	}
	when := x.whenTerm(fi, ls, args, st0)
	fragByHead := map[*ssa.BasicBlock]*fragment{}
	for _, f := range frags[1:] {
		fragByHead[f.ld.header] = f
	}
	posName := func(hv *Term) bool {
		if hv.Op != "var" {
			return false
		}
		n := hv.Name
		if i := strings.Index(n, "."); i >= 0 && strings.HasPrefix(n, "L") {
			n = n[i+1:]
		}
		if j := strings.LastIndex(n, "!"); j >= 0 {
			n = n[:j]
		}
		return ls.positions[n]
	}
	for _, f := range frags {
		sub := map[*Term]*Term{off: BVSub(off, K), L: BVAdd(L, K), cp: BVAdd(cp, K), offsVar: BVAdd(offsVar, K)}
		for _, hv := range f.headVars {
			if posName(hv) {
				sub[hv] = BVAdd(hv, K)
			}
		}
		env := &lawEnv{sub: sub, memo: map[*Term]*Term{}}
		var extra []*Term
		extra = append(extra, SLE(BV(0, 64), K), SLE(BVAdd(L, K), BV(65535, 64)), SLE(L, BVAdd(L, K)), when, env.B(when))
		for _, a := range x.Assumes[:f.nAss] {
			if b := env.B(a); b != a {
				extra = append(extra, b)
			}
		}
		extra = append(extra, x.calleeShiftHyps(f, env, K)...)
		mk := func(site string, goal *Term, note string) {
			o := &Obligation{Name: fmt.Sprintf("%s/law:%s/%s/%s", x.TopKey, ls.kind, f.name, site), Kind: "law", Func: x.TopKey, Tags: ls.clause.Tags,
				Guard: True(), Goal: goal, NAssume: f.nAss, Extra: extra, Expect: "unsat", ex: x, Note: note}
			if f.ld != nil {
				o.Pos = x.W.Fset.Position(f.ld.header.Instrs[0].Pos())
			} else {
				o.Pos = x.W.Fset.Position(fi.Fn.Pos())
			}
			x.Obls = append(x.Obls, o)
		}
		if len(f.rets) > 0 {
			ms, mv := x.mergeRets(f.rets)
			if len(mv.C) != len(fi.RNames) {
				x.fail("SHIFT: results must be scalars")
			}
			var eqs []*Term
			eqs = append(eqs, env.B(ms.G))
			for k, t := range mv.C {
				if ls.positions[fi.RNames[k]] {
					eqs = append(eqs, Eq(env.B(t), BVAdd(t, K)))
				} else {
					eqs = append(eqs, Eq(env.B(t), t))
				}
			}
			mk("ret", Implies(ms.G, And(eqs...)), "SHIFT: the same text K bytes further gives the same results, positions moved by K")
		}
		var hs []*ssa.BasicBlock
		for h := range f.arr {
			hs = append(hs, h)
		}
		sort.Slice(hs, func(i, j int) bool { return hs[i].Index < hs[j].Index })
		for _, h := range hs {
			ma := x.mergeArr(f.arr[h])
			cfg := x.configObs(fr, ma, analyzeCFG(fi.Fn).loops[h])
			fh := fragByHead[h]
			var eqs []*Term
			eqs = append(eqs, env.B(ma.G))
			for j, t := range cfg {
				if t == off || t == L || t == cp {
					continue // the buffer header differs by construction
				}
				pos := t == offsVar
				if fh != nil && j < len(fh.headVars) && posName(fh.headVars[j]) {
					pos = true
				}
				if pos {
					eqs = append(eqs, Eq(env.B(t), BVAdd(t, K)))
				} else {
					eqs = append(eqs, Eq(env.B(t), t))
				}
			}
			mk(fmt.Sprintf("head%d", analyzeCFG(fi.Fn).loops[h].ord), Implies(ma.G, And(eqs...)),
				"SHIFT: while the run continues, the shifted run is in the shifted configuration")
		}
	}
	_ = nEntry
}

// calleeShiftHyps: instances of the callees' SHIFT laws at the call sites of fragment f
func (x *Exec) calleeShiftHyps(f *fragment, env *lawEnv, K *Term) []*Term {
	var out []*Term
	for _, c := range x.calls[f.calls0:f.calls1] {
		var ls *lawSpec
		for _, cl := range c.FI.C.Laws {
			if l, err := parseLaw(cl); err == nil && l.kind == "SHIFT" && x.tagOn(cl.Tags) {
				ls = l
			}
		}
		if ls == nil || len(ls.params) != 2 {
			continue
		}
		bi, oi := paramIndex(c.FI, ls.params[0]), paramIndex(c.FI, ls.params[1])
		if bi < 0 || oi < 0 || bi >= len(c.ArgStart) || oi >= len(c.ArgStart) {
			continue
		}
		offIdx, lenIdx, capIdx, offsIdx := c.ArgStart[bi]+1, c.ArgStart[bi]+2, c.ArgStart[bi]+3, c.ArgStart[oi]
		var prem []*Term
		for k, t := range c.FP {
			switch k {
			case offIdx:
				prem = append(prem, Eq(env.B(t), BVSub(t, K)))
			case lenIdx, capIdx, offsIdx:
				prem = append(prem, Eq(env.B(t), BVAdd(t, K)))
			default:
				prem = append(prem, Eq(env.B(t), t))
			}
		}
		if ls.when != "" {
			st0 := &State{G: True(), Loc: map[int][]*Term{}, Heap: map[*Sort]*Term{}}
			prem = append(prem, x.whenTerm(c.FI, ls, c.Args, st0))
		}
		if len(c.Outs) != len(c.FI.RNames) {
			continue // results only (callees with SHIFT laws modify no object)
		}
		var concl []*Term
		for k, o := range c.Outs {
			if ls.positions[c.FI.RNames[k]] {
				concl = append(concl, Eq(env.B(o), BVAdd(o, K)))
			} else {
				concl = append(concl, Eq(env.B(o), o))
			}
		}
		out = append(out, Implies(And(append(prem, c.Guard)...), And(concl...)))
	}
	return out
}
