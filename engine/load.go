package main

// Loading /repo, generating Go spec functions from the //@ contracts, type-checking
// them with the package and building naive-form SSA.

import (
	"encoding/json"
	"fmt"
	"go/ast"
	"go/parser"
	"go/token"
	"go/types"
	"os"
	"path/filepath"
	"regexp"
	"sort"
	"strings"

	"golang.org/x/tools/go/packages"
	"golang.org/x/tools/go/ssa"
)

type ArgSpec struct {
	Kind string // param entry old result local
	Name string // source-level name
	Idx  int    // param/result index
	Var  *types.Var
}

type GenFunc struct {
	Name string // generated Go function name
	Args []ArgSpec
	Fn   *ssa.Function
}

type FuncInfo struct {
	Key      string
	C        *FuncContract
	Fn       *ssa.Function
	Sig      *types.Signature
	PNames   []string // parameter names incl. receiver first
	PTypes   []types.Type
	RNames   []string
	RTypes   []types.Type
	Decl     ast.Node // *ast.FuncDecl or *ast.FuncLit
	Body     *ast.BlockStmt
	Fors     []ast.Stmt // for/range statements in source order
	Req      []*GenFunc
	Ens      []*GenFunc
	Mod      []*GenFunc
	Keep     []*GenFunc // places the function restores (callers keep their value)
	ModKind  []string // "ptr" or "slice" per Mod entry (filled at exec time from the type)
	LoopInv  map[int][]*GenFunc
	LoopDec  map[int]*GenFunc
	LoopSplit map[int][]*GenFunc
	LawWhen  map[*Clause]*GenFunc
	Split    []*GenFunc
	Scope    *types.Scope
	declPkg  *types.Package
}

type World struct {
	Fset     *token.FileSet
	Pkg      *types.Package
	Info     *types.Info
	Files    []*ast.File
	Prog     *ssa.Program
	SPkg     *ssa.Package
	Funcs    map[string]*FuncInfo     // by key
	ByFn     map[*ssa.Function]*FuncInfo
	GenSrc   string
	RepoDir  string
	GenPath  string
	Consts   map[string]string
	AllFns   map[string]*ssa.Function // every function of the package by key
	Tables   map[string]json.RawMessage
	scanned  int
}

func sanitize(s string) string {
	var sb strings.Builder
	for _, c := range s {
		if c >= 'a' && c <= 'z' || c >= 'A' && c <= 'Z' || c >= '0' && c <= '9' {
			sb.WriteRune(c)
		} else {
			sb.WriteByte('_')
		}
	}
	return sb.String()
}

func goEnv() []string {
	env := os.Environ()
	env = append(env, "GOFLAGS=-mod=mod", "GOPROXY=off", "GOSUMDB=off", "GOTOOLCHAIN=local", "CGO_ENABLED=0")
	return env
}

var methKeyRe = regexp.MustCompile(`^\((\*?)([A-Za-z0-9_]+)\)\.([A-Za-z0-9_]+)$`)
var anonKeyRe = regexp.MustCompile(`^(.*)\$([0-9]+)$`)

func loadWorld(repo string, extraContractFiles []string) (*World, error) {
	cfg := &packages.Config{
		Mode:       packages.LoadAllSyntax,
		Dir:        repo,
		BuildFlags: []string{"-tags=verif"},
		Env:        goEnv(),
	}
	pkgs, err := packages.Load(cfg, ".")
	if err != nil {
		return nil, err
	}
	if len(pkgs) != 1 {
		return nil, fmt.Errorf("expected 1 package, got %d", len(pkgs))
	}
	p0 := pkgs[0]
	if len(p0.Errors) > 0 {
		return nil, fmt.Errorf("package errors: %v", p0.Errors)
	}
	w := &World{Fset: p0.Fset, RepoDir: repo, Funcs: map[string]*FuncInfo{}, ByFn: map[*ssa.Function]*FuncInfo{}, AllFns: map[string]*ssa.Function{}}

	// contracts
	var contracts []*FuncContract
	cfiles, _ := filepath.Glob(filepath.Join(repo, "verif_contracts*.go"))
	cfiles = append(cfiles, extraContractFiles...)
	sort.Strings(cfiles)
	for _, cf := range cfiles {
		src, err := os.ReadFile(cf)
		if err != nil {
			return nil, err
		}
		cs, err := parseContracts(cf, src)
		if err != nil {
			return nil, err
		}
		contracts = append(contracts, cs...)
	}

	// generate spec source using the first type-check
	gen, err := generateSpecs(w, p0, contracts)
	if err != nil {
		return nil, err
	}
	w.GenSrc = gen
	w.GenPath = filepath.Join(repo, "zz_vc_generated.go")
	gf, err := parser.ParseFile(w.Fset, w.GenPath, gen, parser.ParseComments)
	if err != nil {
		os.WriteFile("/tmp/zz_vc_generated.go", []byte(gen), 0644)
		return nil, fmt.Errorf("generated spec file does not parse (copy at /tmp/zz_vc_generated.go): %v", err)
	}

	// second type-check: package files + generated file
	deps := map[string]*types.Package{}
	packages.Visit(pkgs, nil, func(p *packages.Package) {
		if p != p0 {
			deps[p.PkgPath] = p.Types
		}
	})
	files := append(append([]*ast.File{}, p0.Syntax...), gf)
	info := &types.Info{
		Types:      map[ast.Expr]types.TypeAndValue{},
		Defs:       map[*ast.Ident]types.Object{},
		Uses:       map[*ast.Ident]types.Object{},
		Implicits:  map[ast.Node]types.Object{},
		Instances:  map[*ast.Ident]types.Instance{},
		Scopes:     map[ast.Node]*types.Scope{},
		Selections: map[*ast.SelectorExpr]*types.Selection{},
	}
	var terrs []string
	tc := &types.Config{
		Importer: importerFunc(func(path string) (*types.Package, error) {
			if p, ok := deps[path]; ok {
				return p, nil
			}
			return nil, fmt.Errorf("import %q not loaded", path)
		}),
		Error: func(err error) { terrs = append(terrs, err.Error()) },
	}
	npkg, _ := tc.Check(p0.PkgPath, w.Fset, files, info)
	if len(terrs) > 0 {
		os.WriteFile("/tmp/zz_vc_generated.go", []byte(gen), 0644)
		if len(terrs) > 12 {
			terrs = terrs[:12]
		}
		return nil, fmt.Errorf("contracts do not type-check (generated file copy at /tmp/zz_vc_generated.go):\n  %s", strings.Join(terrs, "\n  "))
	}
	w.Pkg = npkg
	w.Info = info
	w.Files = files

	prog := ssa.NewProgram(w.Fset, ssa.NaiveForm)
	packages.Visit(pkgs, nil, func(p *packages.Package) {
		if p == p0 || p.Types == nil {
			return
		}
		if strings.HasSuffix(p.PkgPath, "/bytescase") {
			prog.CreatePackage(p.Types, p.Syntax, p.TypesInfo, true)
		} else {
			prog.CreatePackage(p.Types, nil, nil, true)
		}
	})
	sp := prog.CreatePackage(npkg, files, info, false)
	for _, q := range prog.AllPackages() {
		if strings.HasSuffix(q.Pkg.Path(), "/bytescase") {
			q.Build()
		}
	}
	sp.Build()
	w.Prog = prog
	w.SPkg = sp

	// index all functions
	for _, m := range sp.Members {
		switch x := m.(type) {
		case *ssa.Function:
			w.addFn(x)
		case *ssa.Type:
			for _, t := range []types.Type{x.Type(), types.NewPointer(x.Type())} {
				ms := prog.MethodSets.MethodSet(t)
				for i := 0; i < ms.Len(); i++ {
					f := prog.MethodValue(ms.At(i))
					if f != nil && f.Synthetic == "" && f.Blocks != nil {
						w.addFn(f)
					}
				}
			}
		}
	}
	for _, q := range prog.AllPackages() {
		for _, m := range q.Members {
			if f, ok := m.(*ssa.Function); ok && q != sp {
				w.AllFns[q.Pkg.Name()+"."+f.Name()] = f
			}
		}
	}
	// bind
	for key, fi := range w.Funcs {
		fn := w.AllFns[key]
		if fn == nil {
			return nil, fmt.Errorf("contract for %s: no such function in SSA", key)
		}
		fi.Fn = fn
		w.ByFn[fn] = fi
		bind := func(g *GenFunc) error {
			if g == nil {
				return nil
			}
			g.Fn = sp.Func(g.Name)
			if g.Fn == nil {
				return fmt.Errorf("generated function %s missing", g.Name)
			}
			return nil
		}
		for _, g := range fi.Req {
			if err := bind(g); err != nil {
				return nil, err
			}
		}
		for _, g := range fi.Ens {
			if err := bind(g); err != nil {
				return nil, err
			}
		}
		for _, g := range fi.Mod {
			if err := bind(g); err != nil {
				return nil, err
			}
		}
		for _, g := range fi.Keep {
			if err := bind(g); err != nil {
				return nil, err
			}
		}
		for _, gs := range fi.LoopInv {
			for _, g := range gs {
				if err := bind(g); err != nil {
					return nil, err
				}
			}
		}
		for _, g := range fi.LoopDec {
			if err := bind(g); err != nil {
				return nil, err
			}
		}
		for _, g := range fi.Split {
			if err := bind(g); err != nil {
				return nil, err
			}
		}
		for _, g := range fi.LawWhen {
			if err := bind(g); err != nil {
				return nil, err
			}
		}
		for _, gs := range fi.LoopSplit {
			for _, g := range gs {
				if err := bind(g); err != nil {
					return nil, err
				}
			}
		}
	}
	return w, nil
}

func (w *World) addFn(f *ssa.Function) {
	key := fnKey(f)
	w.AllFns[key] = f
	for _, a := range f.AnonFuncs {
		w.addFn(a)
	}
}

// fnKey gives the contract key of an ssa function: Name, (*T).M, (T).M, Name$1
func fnKey(f *ssa.Function) string {
	if f.Parent() != nil {
		return fnKey(f.Parent()) + strings.TrimPrefix(f.Name(), f.Parent().Name())
	}
	if recv := f.Signature.Recv(); recv != nil {
		t := recv.Type()
		star := ""
		if pt, ok := t.(*types.Pointer); ok {
			star = "*"
			t = pt.Elem()
		}
		if nt, ok := t.(*types.Named); ok {
			return fmt.Sprintf("(%s%s).%s", star, nt.Obj().Name(), f.Name())
		}
	}
	return f.Name()
}

type importerFunc func(path string) (*types.Package, error)

func (f importerFunc) Import(path string) (*types.Package, error) { return f(path) }

// ---------- generation ----------

var extKeyRe = regexp.MustCompile(`^([a-z][A-Za-z0-9_]*)\.([A-Za-z0-9_]+)$`)

// findPkgFunc resolves an external key "pkg.Func" among the (transitive) imports.
func findPkgFunc(p0 *packages.Package, key string) (*packages.Package, string) {
	m := extKeyRe.FindStringSubmatch(key)
	if m == nil {
		return nil, ""
	}
	var found *packages.Package
	packages.Visit([]*packages.Package{p0}, nil, func(q *packages.Package) {
		if q.Name == m[1] && q.Types != nil && q.Types.Scope().Lookup(m[2]) != nil && (found == nil || len(q.PkgPath) < len(found.PkgPath)) {
			found = q
		}
	})
	return found, m[2]
}

func findDecl(p *packages.Package, key string) (ast.Node, *ast.BlockStmt, *types.Signature, error) {
	if q, name := findPkgFunc(p, key); q != nil {
		obj, ok := q.Types.Scope().Lookup(name).(*types.Func)
		if !ok {
			return nil, nil, nil, fmt.Errorf("%s is not a function", key)
		}
		for _, f := range q.Syntax {
			for _, d := range f.Decls {
				if fd, ok := d.(*ast.FuncDecl); ok && fd.Recv == nil && fd.Name.Name == name && fd.Body != nil {
					return fd, fd.Body, obj.Type().(*types.Signature), nil
				}
			}
		}
		return nil, nil, obj.Type().(*types.Signature), nil
	}
	base := key
	anon := 0
	if m := anonKeyRe.FindStringSubmatch(key); m != nil {
		base = m[1]
		fmt.Sscanf(m[2], "%d", &anon)
	}
	var recvT, name string
	if m := methKeyRe.FindStringSubmatch(base); m != nil {
		recvT, name = m[2], m[3]
	} else {
		name = base
	}
	for _, f := range p.Syntax {
		for _, d := range f.Decls {
			fd, ok := d.(*ast.FuncDecl)
			if !ok || fd.Name.Name != name || fd.Body == nil {
				continue
			}
			if recvT == "" && fd.Recv != nil {
				continue
			}
			if recvT != "" {
				if fd.Recv == nil || len(fd.Recv.List) != 1 {
					continue
				}
				rt := fd.Recv.List[0].Type
				if se, ok := rt.(*ast.StarExpr); ok {
					rt = se.X
				}
				if id, ok := rt.(*ast.Ident); !ok || id.Name != recvT {
					continue
				}
			}
			if anon == 0 {
				obj := p.TypesInfo.Defs[fd.Name].(*types.Func)
				return fd, fd.Body, obj.Type().(*types.Signature), nil
			}
			var lits []*ast.FuncLit
			ast.Inspect(fd.Body, func(n ast.Node) bool {
				if fl, ok := n.(*ast.FuncLit); ok {
					lits = append(lits, fl)
					return false
				}
				return true
			})
			if anon > len(lits) {
				return nil, nil, nil, fmt.Errorf("%s: no such closure", key)
			}
			fl := lits[anon-1]
			sig := p.TypesInfo.Types[fl].Type.(*types.Signature)
			return fl, fl.Body, sig, nil
		}
	}
	return nil, nil, nil, fmt.Errorf("contract for %s: function not found in source", key)
}

func collectFors(body *ast.BlockStmt) []ast.Stmt {
	var out []ast.Stmt
	ast.Inspect(body, func(n ast.Node) bool {
		switch x := n.(type) {
		case *ast.FuncLit:
			return false
		case *ast.ForStmt:
			out = append(out, x)
		case *ast.RangeStmt:
			out = append(out, x)
		}
		return true
	})
	return out
}

func forHeaderText(fset *token.FileSet, st ast.Stmt, src func(string) []byte) string {
	var lb token.Pos
	switch x := st.(type) {
	case *ast.ForStmt:
		lb = x.Body.Lbrace
	case *ast.RangeStmt:
		lb = x.Body.Lbrace
	}
	p0 := fset.Position(st.Pos())
	p1 := fset.Position(lb)
	b := src(p0.Filename)
	if b == nil || p1.Offset > len(b) {
		return ""
	}
	s := string(b[p0.Offset:p1.Offset])
	return strings.Join(strings.Fields(s), " ")
}

func generateSpecs(w *World, p *packages.Package, contracts []*FuncContract) (string, error) {
	var sb strings.Builder
	sb.WriteString("//go:build verif\n\n// Code generated by govc from the //@ contracts. DO NOT EDIT.\n\npackage " + p.Types.Name() + "\n\n")
	qual := func(o *types.Package) string {
		if o == p.Types {
			return ""
		}
		return o.Name()
	}
	imports := map[string]bool{}
	tstr := func(t types.Type) string {
		s := types.TypeString(t, func(o *types.Package) string {
			if o == p.Types {
				return ""
			}
			imports[o.Path()] = true
			return o.Name()
		})
		return s
	}
	_ = qual
	srcCache := map[string][]byte{}
	src := func(fn string) []byte {
		if b, ok := srcCache[fn]; ok {
			return b
		}
		b, _ := os.ReadFile(fn)
		srcCache[fn] = b
		return b
	}
	var body strings.Builder
	for _, fc := range contracts {
		if _, dup := w.Funcs[fc.Key]; dup {
			return "", fmt.Errorf("%s:%d: duplicate contract for %s", fc.File, fc.Line, fc.Key)
		}
		decl, fbody, sig, err := findDecl(p, fc.Key)
		if err != nil {
			return "", fmt.Errorf("%s:%d: %v", fc.File, fc.Line, err)
		}
		fi := &FuncInfo{Key: fc.Key, C: fc, Sig: sig, Decl: decl, Body: fbody, LoopInv: map[int][]*GenFunc{}, LoopDec: map[int]*GenFunc{}, LoopSplit: map[int][]*GenFunc{}, LawWhen: map[*Clause]*GenFunc{}}
		if recv := sig.Recv(); recv != nil {
			n := recv.Name()
			if n == "" || n == "_" {
				n = "recv"
			}
			fi.PNames = append(fi.PNames, n)
			fi.PTypes = append(fi.PTypes, recv.Type())
		}
		for i := 0; i < sig.Params().Len(); i++ {
			v := sig.Params().At(i)
			n := v.Name()
			if n == "" || n == "_" {
				n = fmt.Sprintf("p_%d", i)
			}
			fi.PNames = append(fi.PNames, n)
			fi.PTypes = append(fi.PTypes, v.Type())
		}
		if len(fc.Params) != len(fi.PNames) {
			return "", fmt.Errorf("%s:%d: %s: contract header lists %d parameters, function has %d (%v)", fc.File, fc.Line, fc.Key, len(fc.Params), len(fi.PNames), fi.PNames)
		}
		for i, n := range fc.Params {
			if n != fi.PNames[i] {
				return "", fmt.Errorf("%s:%d: %s: parameter %d is %q in the source, %q in the contract", fc.File, fc.Line, fc.Key, i, fi.PNames[i], n)
			}
		}
		if len(fc.Results) != sig.Results().Len() {
			return "", fmt.Errorf("%s:%d: %s: contract header lists %d results, function has %d", fc.File, fc.Line, fc.Key, len(fc.Results), sig.Results().Len())
		}
		for i := 0; i < sig.Results().Len(); i++ {
			fi.RNames = append(fi.RNames, fc.Results[i])
			fi.RTypes = append(fi.RTypes, sig.Results().At(i).Type())
		}
		if fbody != nil {
			fi.Fors = collectFors(fbody)
		}
		declP := p
		if q, _ := findPkgFunc(p, fc.Key); q != nil {
			declP = q
		}
		san := sanitize(fc.Key)

		// builder of a generated function
		mk := func(name, ret, text string, allowResults bool, loopStmt ast.Stmt, isInv bool) (*GenFunc, error) {
			ge, ids, err := goExpr(text)
			if err != nil {
				return nil, err
			}
			g := &GenFunc{Name: name}
			var params []string
			used := map[string]bool{}
			for i, n := range fi.PNames {
				if ids[n] {
					k := "param"
					if isInv {
						k = "local-param"
					}
					g.Args = append(g.Args, ArgSpec{Kind: k, Name: n, Idx: i})
					params = append(params, n+" "+tstr(fi.PTypes[i]))
					used[n] = true
				}
				if ids[n+"0"] {
					g.Args = append(g.Args, ArgSpec{Kind: "entry", Name: n, Idx: i})
					params = append(params, n+"0 "+tstr(fi.PTypes[i]))
					used[n+"0"] = true
				}
				if ids[n+"_old"] {
					pt, ok := fi.PTypes[i].Underlying().(*types.Pointer)
					if !ok {
						return nil, fmt.Errorf("%s_old: parameter is not a pointer", n)
					}
					g.Args = append(g.Args, ArgSpec{Kind: "old", Name: n, Idx: i})
					params = append(params, n+"_old "+tstr(pt.Elem()))
					used[n+"_old"] = true
				}
			}
			if allowResults {
				for i, n := range fi.RNames {
					if ids[n] && !used[n] {
						g.Args = append(g.Args, ArgSpec{Kind: "result", Name: n, Idx: i})
						params = append(params, n+" "+tstr(fi.RTypes[i]))
						used[n] = true
					}
				}
			}
			if loopStmt != nil {
				// locals visible at the loop
				sc := declP.TypesInfo.Scopes[loopStmt]
				var pos token.Pos
				switch x := loopStmt.(type) {
				case *ast.ForStmt:
					pos = x.Body.Lbrace
				case *ast.RangeStmt:
					pos = x.Body.Lbrace
				}
				var names []string
				for n := range ids {
					names = append(names, n)
				}
				sort.Strings(names)
				for _, n := range names {
					if used[n] || sc == nil {
						continue
					}
					if n == "rangeindex" {
						g.Args = append(g.Args, ArgSpec{Kind: "rangeindex", Name: n})
						params = append(params, "rangeindex int")
						used[n] = true
						continue
					}
					if strings.HasPrefix(n, "addrof_") {
						// addrof_x: the address of the local variable x (a clause cannot write &x: locals are
						// handed to the clause by value)
						_, obj := sc.LookupParent(n[7:], pos)
						if v, ok := obj.(*types.Var); ok && v.Pkg() == declP.Types && !v.IsField() && v.Pos() >= decl.Pos() && v.Pos() <= decl.End() {
							g.Args = append(g.Args, ArgSpec{Kind: "localaddr", Name: n, Var: v})
							params = append(params, n+" *"+tstr(v.Type()))
							used[n] = true
						}
						continue
					}
					_, obj := sc.LookupParent(n, pos)
					v, ok := obj.(*types.Var)
					if !ok || v.Pkg() != declP.Types || v.Parent() == declP.Types.Scope() || v.IsField() {
						continue
					}
					// must be declared inside this function
					if v.Pos() < decl.Pos() || v.Pos() > decl.End() {
						continue
					}
					g.Args = append(g.Args, ArgSpec{Kind: "local", Name: n, Var: v})
					params = append(params, n+" "+tstr(v.Type()))
					used[n] = true
				}
			}
			fmt.Fprintf(&body, "func %s(%s) %s { return %s }\n\n", name, strings.Join(params, ", "), ret, ge)
			return g, nil
		}
		for _, c := range fc.Requires {
			g, err := mk(fmt.Sprintf("vc_%s_req%d", san, c.Ord), "bool", c.Text, false, nil, false)
			if err != nil {
				return "", fmt.Errorf("%s:%d: %v", fc.File, c.Line, err)
			}
			fi.Req = append(fi.Req, g)
		}
		for _, c := range fc.Ensures {
			g, err := mk(fmt.Sprintf("vc_%s_ens%d", san, c.Ord), "bool", c.Text, true, nil, false)
			if err != nil {
				return "", fmt.Errorf("%s:%d: %v", fc.File, c.Line, err)
			}
			fi.Ens = append(fi.Ens, g)
		}
		for _, c := range fc.Splits {
			rt := "bool"
			if c.Kind == "cases" {
				rt = "int"
				c.Text = "int(" + c.Text + ")"
			}
			g, err := mk(fmt.Sprintf("vc_%s_split%d", san, c.Ord), rt, c.Text, false, nil, false)
			if err != nil {
				return "", fmt.Errorf("%s:%d: %v", fc.File, c.Line, err)
			}
			fi.Split = append(fi.Split, g)
		}
		for li, c := range fc.Laws {
			if i := strings.Index(c.Text, " when "); i >= 0 {
				g, err := mk(fmt.Sprintf("vc_%s_law%d_when", san, li+1), "bool", c.Text[i+6:], false, nil, false)
				if err != nil {
					return "", fmt.Errorf("%s:%d: %v", fc.File, c.Line, err)
				}
				fi.LawWhen[c] = g
			}
		}
		mi := 0
		for _, c := range fc.Modifies {
			for _, it := range splitTop(c.Text, ",") {
				it = strings.TrimSpace(it)
				if it == "" {
					continue
				}
				mi++
				var ex string
				switch {
				case strings.HasPrefix(it, "*"):
					ex = it[1:]
				case strings.HasSuffix(it, "[*]"):
					ex = it[:len(it)-3]
				default:
					ex = "&" + it
				}
				g, err := mk(fmt.Sprintf("vc_%s_mod%d", san, mi), "interface{}", ex, false, nil, false)
				if err != nil {
					return "", fmt.Errorf("%s:%d: %v", fc.File, c.Line, err)
				}
				fi.Mod = append(fi.Mod, g)
			}
		}
		for ki, it := range fc.Keeps {
			g, err := mk(fmt.Sprintf("vc_%s_keep%d", san, ki+1), "interface{}", "&"+it, false, nil, false)
			if err != nil {
				return "", fmt.Errorf("%s: keeps %s: %v", fc.File, it, err)
			}
			fi.Keep = append(fi.Keep, g)
		}
		for _, lc := range fc.Loops {
			if lc.Ord < 0 || lc.Ord >= len(fi.Fors) {
				return "", fmt.Errorf("%s:%d: %s has %d loops, contract names loop %d", fc.File, lc.Line, fc.Key, len(fi.Fors), lc.Ord)
			}
			st := fi.Fors[lc.Ord]
			if lc.Header != "" {
				got := forHeaderText(p.Fset, st, src)
				if got != strings.Join(strings.Fields(lc.Header), " ") {
					fmt.Fprintf(os.Stderr, "govc: warning: %s:%d: %s loop %d header is %q in the source, contract says %q\n", fc.File, lc.Line, fc.Key, lc.Ord, got, lc.Header)
				}
			}
			for _, c := range lc.Invs {
				g, err := mk(fmt.Sprintf("vc_%s_loop%d_inv%d", san, lc.Ord, c.Ord), "bool", c.Text, false, st, true)
				if err != nil {
					return "", fmt.Errorf("%s:%d: %v", fc.File, c.Line, err)
				}
				fi.LoopInv[lc.Ord] = append(fi.LoopInv[lc.Ord], g)
			}
			for _, c := range lc.Splits {
				rt := "bool"
				if c.Kind == "cases" {
					rt = "int"
					c.Text = "int(" + c.Text + ")"
				}
				g, err := mk(fmt.Sprintf("vc_%s_loop%d_split%d", san, lc.Ord, c.Ord), rt, c.Text, false, st, true)
				if err != nil {
					return "", fmt.Errorf("%s:%d: %v", fc.File, c.Line, err)
				}
				fi.LoopSplit[lc.Ord] = append(fi.LoopSplit[lc.Ord], g)
			}
			if lc.Dec != nil {
				g, err := mk(fmt.Sprintf("vc_%s_loop%d_dec", san, lc.Ord), "int", lc.Dec.Text, false, st, true)
				if err != nil {
					return "", fmt.Errorf("%s:%d: %v", fc.File, lc.Dec.Line, err)
				}
				fi.LoopDec[lc.Ord] = g
			}
		}
		w.Funcs[fc.Key] = fi
	}
	var imps []string
	for ip := range imports {
		imps = append(imps, ip)
	}
	sort.Strings(imps)
	for _, ip := range imps {
		fmt.Fprintf(&sb, "import %q\n", ip)
	}
	sb.WriteString("\n")
	sb.WriteString(body.String())
	return sb.String(), nil
}
