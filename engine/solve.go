package main

// Discharging obligations with z3 5.1 (z3-new), cvc5 and z3 4.8, in parallel.

import (
	"bytes"
	"context"
	"fmt"
	"os"
	"os/exec"
	"path/filepath"
	"strings"
	"sync"
	"time"
)

type Result struct {
	O       *Obligation
	Status  string // unsat sat unknown timeout error
	Solver  string
	Secs    float64
	File    string
	Output  string
	Tried   []string
	Agreed  []string // solvers that independently returned the expected answer (thorough tier)
}

type solverSpec struct {
	Name string
	Args []string
}

func solverList() []solverSpec {
	return []solverSpec{
		{"z3-5.1.0", []string{"z3-new", "-smt2"}},
		{"cvc5-1.0.3", []string{"cvc5", "--lang=smt2"}},
		{"z3-4.8.12", []string{"z3", "-smt2"}},
	}
}

func (o *Obligation) smtCase(footer []string, mask int) (string, string) {
	as := append([]*Term{}, o.ex.Assumes[:o.NAssume]...)
	as = append(as, o.Guard)
	for k, sp := range o.Splits {
		if mask&(1<<k) != 0 {
			as = append(as, sp)
		} else {
			as = append(as, Not(sp))
		}
	}
	hdr := []string{"(set-logic ALL)", "; obligation " + o.Name + fmt.Sprintf(" case %d", mask), "; " + o.Note, "; " + o.Pos.String()}
	return SMTQuery(as, o.Goal, hdr, footer), qfText(as, o.Goal, hdr, footer)
}

// qfText: the quantifier-free strengthening of the query, or "" when there is nothing to eliminate
func qfText(as []*Term, goal *Term, hdr, footer []string) string {
	any := hasQuant(goal)
	for _, a := range as {
		if hasQuant(a) {
			any = true
			break
		}
	}
	if !any {
		return ""
	}
	as2, g2, ok := qfVersion(as, goal)
	if !ok {
		return ""
	}
	h2 := append([]string{}, hdr...)
	h2 = append(h2, "; quantifier-free version: goal-side quantifiers skolemised, hypothesis-side instantiated")
	return SMTQuery(as2, g2, h2, footer)
}

func (o *Obligation) smtBoth(footer []string) (string, string) {
	if o.Kind == "cover" {
		return o.smt(footer), ""
	}
	as := append([]*Term{}, o.ex.Assumes[:o.NAssume]...)
	as = append(as, o.Extra...)
	as = append(as, o.Guard)
	hdr := []string{"(set-logic ALL)", "; obligation " + o.Name, "; " + o.Note, "; " + o.Pos.String()}
	return SMTQuery(as, o.Goal, hdr, footer), qfText(as, o.Goal, hdr, footer)
}

var quantMemo = map[*Term]bool{}

func hasQuant(t *Term) bool {
	if v, ok := quantMemo[t]; ok {
		return v
	}
	r := t.Op == "forall" || t.Op == "exists"
	if !r {
		for _, a := range t.Args {
			if hasQuant(a) {
				r = true
				break
			}
		}
	}
	quantMemo[t] = r
	return r
}

func (o *Obligation) smt(footer []string) string {
	as := append([]*Term{}, o.ex.Assumes[:o.NAssume]...)
	if o.Kind == "cover" {
		// vacuity guards ask for satisfiability; quantified hypotheses (frame axioms, range facts) are
		// left out so that the solvers can answer -- the guard then covers the quantifier-free hypotheses only
		var qf []*Term
		for _, a := range as {
			if !hasQuant(a) {
				qf = append(qf, a)
			}
		}
		as = qf
	}
	as = append(as, o.Guard)
	return SMTQuery(as, o.Goal, []string{"(set-logic ALL)", "; obligation " + o.Name, "; " + o.Note, "; " + o.Pos.String()}, footer)
}

func runSolver(sp solverSpec, file string, timeout time.Duration) (status, out string, secs float64) {
	return runSolverCtx(context.Background(), sp, file, timeout)
}

type raceRes struct {
	sp     solverSpec
	status string
	out    string
	secs   float64
}

// race runs the given solvers concurrently on one file and returns as soon as `enough` of them have
// given the same definitive answer (or all have finished).
func race(sps []solverSpec, file string, timeout time.Duration, enough int) []raceRes {
	ctx, cancel := context.WithCancel(context.Background())
	defer cancel()
	ch := make(chan raceRes, len(sps))
	for _, sp := range sps {
		go func(sp solverSpec) {
			st, out, secs := runSolverCtx(ctx, sp, file, timeout)
			ch <- raceRes{sp, st, out, secs}
		}(sp)
	}
	var res []raceRes
	cnt := map[string]int{}
	for range sps {
		r := <-ch
		res = append(res, r)
		if r.status == "sat" || r.status == "unsat" {
			cnt[r.status]++
			if cnt[r.status] >= enough {
				break
			}
		}
	}
	return res
}

func runSolverCtx(parent context.Context, sp solverSpec, file string, timeout time.Duration) (status, out string, secs float64) {
	ctx, cancel := context.WithTimeout(parent, timeout+2*time.Second)
	defer cancel()
	args := append([]string{}, sp.Args[1:]...)
	switch {
	case strings.HasPrefix(sp.Name, "z3"):
		args = append(args, fmt.Sprintf("-T:%d", int(timeout.Seconds())))
	case strings.HasPrefix(sp.Name, "cvc5"):
		args = append(args, fmt.Sprintf("--tlimit=%d", int(timeout.Milliseconds())))
	}
	args = append(args, file)
	cmd := exec.CommandContext(ctx, sp.Args[0], args...)
	var buf bytes.Buffer
	cmd.Stdout = &buf
	cmd.Stderr = &buf
	t0 := time.Now()
	cmd.Run()
	secs = time.Since(t0).Seconds()
	out = buf.String()
	first := strings.TrimSpace(strings.SplitN(out, "\n", 2)[0])
	switch first {
	case "sat", "unsat", "unknown":
		return first, out, secs
	case "timeout":
		return "timeout", out, secs
	}
	if parent.Err() != nil {
		return "cancelled", out, secs
	}
	if ctx.Err() != nil || strings.Contains(out, "timeout") || strings.Contains(out, "interrupted") {
		return "timeout", out, secs
	}
	return "error", out, secs
}

func safeFile(name string) string {
	r := strings.NewReplacer("/", "__", "(", "", ")", "", "*", "p", "$", "_", ":", "_", " ", "_", "#", "-")
	s := r.Replace(name)
	if len(s) > 180 {
		s = s[:180]
	}
	return s
}

func solveAllInner(obls []*Obligation, outDir string, timeout time.Duration, thorough bool, jobs int) []*Result {
	os.MkdirAll(outDir, 0755)
	clearFacts() // printing and instantiation rebuild terms: no execution-time facts may apply here
	res := make([]*Result, len(obls))
	// SMT text must be produced single-threaded (term tables are not thread safe)
	files := make([]string, len(obls))
	cases := make([][]string, len(obls))
	var wg sync.WaitGroup
	var phase2 []int
	sem := make(chan struct{}, jobs)
	launch := func(i int) {
		wg.Add(1)
		go func(i int) {
			defer wg.Done()
			sem <- struct{}{}
			defer func() { <-sem }()
			o := obls[i]
			if o.scanFail {
				st := "scan-failed"
				if o.Kind == "binding" {
					st = "contract-does-not-apply"
				}
				res[i] = &Result{O: o, File: files[i], Status: st, Solver: "ssa-scan", Output: o.Note}
				return
			}
			if len(cases[i]) > 1 {
				// every case must be discharged; the first failing case is reported
				r := &Result{O: o, File: files[i], Status: "unsat"}
				for _, cf := range cases[i] {
					cr := solveOne(o, cf, timeout, thorough)
					r.Secs += cr.Secs
					r.Tried = append(r.Tried, cr.Tried...)
					if cr.Status != "unsat" {
						r.Status, r.File, r.Output, r.Solver = cr.Status, cf, cr.Output, cr.Solver
						break
					}
					r.Solver = cr.Solver
					r.Agreed = cr.Agreed
				}
				res[i] = r
				return
			}
			res[i] = solveOne(o, files[i], timeout, thorough)
		}(i)
	}
	for i, o := range obls {
		f := filepath.Join(outDir, fmt.Sprintf("%04d_%s.smt2", i, safeFile(o.Name)))
		footer := []string{"(check-sat)"}
		files[i] = f
		if o.scanFail {
			os.WriteFile(f, []byte("; "+o.Note+"\n; "+o.Pos.String()+"\n"), 0644)
			launch(i)
			continue
		}
		if len(o.Splits) > 0 && o.Kind != "cover" && len(o.Splits) <= 6 {
			for m := 0; m < 1<<len(o.Splits); m++ {
				cf := filepath.Join(outDir, fmt.Sprintf("%04d_%s.case%d.smt2", i, safeFile(o.Name), m))
				full, qf := o.smtCase(footer, m)
				os.WriteFile(cf, []byte(full), 0644)
				if qf != "" {
					os.WriteFile(cf+".qf", []byte(qf), 0644)
				}
				cases[i] = append(cases[i], cf)
			}
			files[i] = cases[i][0]
			launch(i)
			continue
		}
		if !thorough && o.Kind != "cover" && o.Expect == "unsat" {
			// quick tier, phase 1: the query as it is, with a short time limit; the quantifier-free
			// strengthening (expensive to produce) is only made for what is left over
			as := append([]*Term{}, o.ex.Assumes[:o.NAssume]...)
			as = append(as, o.Extra...)
			as = append(as, o.Guard)
			os.WriteFile(f, []byte(SMTQuery(as, o.Goal, []string{"(set-logic ALL)", "; obligation " + o.Name, "; " + o.Note, "; " + o.Pos.String()}, footer)), 0644)
			cases[i] = []string{f}
			phase2 = append(phase2, i)
			wg.Add(1)
			go func(i int) {
				defer wg.Done()
				sem <- struct{}{}
				defer func() { <-sem }()
				short := 6 * time.Second
				if timeout < short {
					short = timeout
				}
				r := &Result{O: obls[i], File: files[i], Status: "unknown"}
				for _, rr := range race(solverList()[:2], files[i], short, 1) {
					r.Tried = append(r.Tried, fmt.Sprintf("%s:%s:%.2fs", rr.sp.Name, rr.status, rr.secs))
					if rr.secs > r.Secs {
						r.Secs = rr.secs
					}
					if (rr.status == "sat" || rr.status == "unsat") && r.Status == "unknown" {
						r.Status, r.Solver, r.Output = rr.status, rr.sp.Name, rr.out
						r.Agreed = []string{rr.sp.Name}
					}
				}
				res[i] = r
				dropFiles(i, r, []string{files[i]})
			}(i)
			continue
		}
		full, qf := o.smtBoth(footer)
		os.WriteFile(f, []byte(full), 0644)
		if qf != "" {
			os.WriteFile(f+".qf", []byte(qf), 0644)
		}
		cases[i] = []string{f}
		launch(i)
	}
	if len(phase2) > 0 {
		wg.Wait()
		for _, i := range phase2 {
			if res[i] != nil && (res[i].Status == "sat" || res[i].Status == "unsat") {
				dropFiles(i, res[i], cases[i])
				continue
			}
			o := obls[i]
			prev := res[i]
			as := append([]*Term{}, o.ex.Assumes[:o.NAssume]...)
			as = append(as, o.Extra...)
			as = append(as, o.Guard)
			hdr := []string{"(set-logic ALL)", "; obligation " + o.Name, "; " + o.Note, "; " + o.Pos.String()}
			if qf := qfText(as, o.Goal, hdr, []string{"(check-sat)"}); qf != "" {
				os.WriteFile(files[i]+".qf", []byte(qf), 0644)
			}
			wg.Add(1)
			go func(i int, prev *Result) {
				defer wg.Done()
				sem <- struct{}{}
				defer func() { <-sem }()
				r := solveOne(obls[i], files[i], timeout, thorough)
				if prev != nil {
					r.Tried = append(prev.Tried, r.Tried...)
					r.Secs += prev.Secs
				}
				res[i] = r
				dropFiles(i, r, cases[i])
			}(i, prev)
		}
	}
	wg.Wait()
	return res
}

func (r *Result) OK() bool { return r.Status == r.O.Expect }

func solveOne(o *Obligation, file string, timeout time.Duration, thorough bool) *Result {
	r := solveOnce(o, file, timeout, thorough)
	if (r.Status == "timeout" || r.Status == "unknown") && o.Expect == "unsat" {
		// stragglers get one more round with four times the budget (all solvers in parallel)
		r2 := solveOnce(o, file, 4*timeout, thorough)
		r2.Tried = append(r.Tried, r2.Tried...)
		r2.Secs += r.Secs
		return r2
	}
	return r
}

func solveOnce(o *Obligation, file string, timeout time.Duration, thorough bool) *Result {
	r := &Result{O: o, File: file, Status: "unknown"}
	enough := 1
	if thorough {
		enough = 2
	}
	if _, err := os.Stat(file + ".qf"); err == nil && o.Expect == "unsat" && !thorough {
		// quick tier: the quantifier-free strengthening and the quantified original race each other;
		// unsat on either is a sound discharge, sat only counts on the original
		if rq := raceBoth(o, file, timeout); rq != nil {
			return rq
		}
		r.Tried = append(r.Tried, "qf+full: no answer")
		r.Status = "timeout"
		return r
	}
	if _, err := os.Stat(file + ".qf"); err == nil && o.Expect == "unsat" {
		// quantifier-free strengthening first: unsat there is a sound discharge
		for _, rr := range race(solverList()[:2], file+".qf", timeout, enough) {
			r.Tried = append(r.Tried, fmt.Sprintf("qf/%s:%s:%.2fs", rr.sp.Name, rr.status, rr.secs))
			r.Secs += rr.secs
			if rr.status == "unsat" {
				r.Agreed = append(r.Agreed, rr.sp.Name+"(qf-inst)")
				if r.Status != "unsat" {
					r.Status, r.Solver = "unsat", rr.sp.Name+"(qf-inst)"
				}
			}
		}
		if r.Status == "unsat" && len(r.Agreed) >= enough {
			return r
		}
		if r.Status == "unsat" {
			// thorough: one more opinion from the remaining solver on the quantifier-free file
			st, _, secs := runSolver(solverList()[2], file+".qf", timeout)
			r.Tried = append(r.Tried, fmt.Sprintf("qf/%s:%s:%.2fs", solverList()[2].Name, st, secs))
			r.Secs += secs
			if st == "unsat" {
				r.Agreed = append(r.Agreed, solverList()[2].Name+"(qf-inst)")
			}
			return r
		}
	}
	sps := solverList()
	if !thorough {
		sps = sps[:2]
	}
	for _, rr := range race(sps, file, timeout, enough) {
		r.Tried = append(r.Tried, fmt.Sprintf("%s:%s:%.2fs", rr.sp.Name, rr.status, rr.secs))
		r.Secs += rr.secs
		if rr.status == "sat" || rr.status == "unsat" {
			if r.Status != "sat" && r.Status != "unsat" {
				r.Status, r.Solver, r.Output = rr.status, rr.sp.Name, rr.out
			}
			if rr.status == r.Status {
				r.Agreed = append(r.Agreed, rr.sp.Name)
			}
			continue
		}
		if r.Output == "" {
			r.Output = rr.out
		}
		if rr.status == "timeout" && r.Status == "unknown" {
			r.Status = "timeout"
		}
	}
	if !thorough && r.Status != "sat" && r.Status != "unsat" {
		// last resort in the quick tier: the old z3
		st, out, secs := runSolver(solverList()[2], file, timeout)
		r.Tried = append(r.Tried, fmt.Sprintf("%s:%s:%.2fs", solverList()[2].Name, st, secs))
		r.Secs += secs
		if st == "sat" || st == "unsat" {
			r.Status, r.Solver, r.Output = st, solverList()[2].Name, out
			r.Agreed = append(r.Agreed, solverList()[2].Name)
		}
	}
	return r
}

// raceBoth: four solver runs at once (z3-new and cvc5 on the instantiated file and on the original); the
// first unsat, or the first sat on the original, decides.
func raceBoth(o *Obligation, file string, timeout time.Duration) *Result {
	type item struct {
		rr raceRes
		qf bool
	}
	ctx, cancel := context.WithCancel(context.Background())
	defer cancel()
	sps := solverList()[:2]
	ch := make(chan item, 4)
	for _, sp := range sps {
		for _, qf := range []bool{true, false} {
			go func(sp solverSpec, qf bool) {
				f := file
				if qf {
					f += ".qf"
				}
				st, out, secs := runSolverCtx(ctx, sp, f, timeout)
				ch <- item{raceRes{sp, st, out, secs}, qf}
			}(sp, qf)
		}
	}
	r := &Result{O: o, File: file, Status: "unknown"}
	for k := 0; k < 4; k++ {
		it := <-ch
		tag := ""
		if it.qf {
			tag = "qf/"
		}
		r.Tried = append(r.Tried, fmt.Sprintf("%s%s:%s:%.2fs", tag, it.rr.sp.Name, it.rr.status, it.rr.secs))
		if it.rr.secs > r.Secs {
			r.Secs = it.rr.secs
		}
		switch {
		case it.rr.status == "unsat":
			r.Status = "unsat"
			r.Solver = it.rr.sp.Name
			if it.qf {
				r.Solver += "(qf-inst)"
			}
			r.Agreed = []string{r.Solver}
			return r
		case it.rr.status == "sat" && !it.qf:
			r.Status, r.Solver, r.Output = "sat", it.rr.sp.Name, it.rr.out
			r.Agreed = []string{r.Solver}
			return r
		case it.rr.status == "timeout" && r.Status == "unknown":
			r.Status = "timeout"
		}
		if !it.qf && r.Output == "" {
			r.Output = it.rr.out
		}
	}
	return r
}

// solveAll: the quick pipeline decides every obligation; the thorough tier then asks a second, different solver
// to confirm every discharge on the same query (the instantiated file when that is what was decided). A second
// solver that answers sat on the original query is a disagreement and is reported as not discharged; one that
// times out leaves the discharge standing with a single witness (recorded in the evidence).
func solveAll(obls []*Obligation, outDir string, timeout time.Duration, thorough bool, jobs int) []*Result {
	eagerDelete = !thorough
	nObls = len(obls)
	res := solveAllInner(obls, outDir, timeout, false, jobs)
	if !thorough {
		return res
	}
	var wg sync.WaitGroup
	sem := make(chan struct{}, jobs)
	for i := range res {
		r := res[i]
		if r == nil || !r.OK() || r.O.Expect != "unsat" || r.O.scanFail || r.File == "" {
			continue
		}
		wg.Add(1)
		go func(r *Result) {
			defer wg.Done()
			sem <- struct{}{}
			defer func() { <-sem }()
			file, qf := r.File, false
			if strings.Contains(r.Solver, "(qf-inst)") {
				file, qf = r.File+".qf", true
			}
			if _, err := os.Stat(file); err != nil {
				return
			}
			var others []solverSpec
			for _, sp := range solverList() {
				if !strings.HasPrefix(r.Solver, sp.Name) {
					others = append(others, sp)
				}
			}
			ct := 3 * time.Duration(r.Secs*float64(time.Second))
			if ct < 10*time.Second {
				ct = 10 * time.Second
			}
			if ct > timeout {
				ct = timeout
			}
			tag := ""
			if qf {
				tag = "qf/"
			}
			for _, rr := range race(others, file, ct, 1) {
				r.Tried = append(r.Tried, fmt.Sprintf("confirm:%s%s:%s:%.2fs", tag, rr.sp.Name, rr.status, rr.secs))
				if rr.status == "unsat" {
					r.Agreed = append(r.Agreed, rr.sp.Name)
				}
				if rr.status == "sat" && !qf {
					r.Status, r.Output = "sat", "solver disagreement: "+r.Solver+" unsat, "+rr.sp.Name+" sat\n"+rr.out
					r.Solver = rr.sp.Name
				}
			}
		}(r)
	}
	wg.Wait()
	return res
}

// eager clean-up (quick tier): the SMT files of an obligation are removed as soon as it is discharged, except for
// the few the evidence samples point to; the peak size of out/<id> then stays small even for the largest check
var eagerDelete bool
var nObls int

func isSampleIdx(i, n int) bool {
	st := n / 12
	if st < 1 {
		st = 1
	}
	return i%st == 0
}

func dropFiles(i int, r *Result, files []string) {
	if !eagerDelete || r == nil || !r.OK() || isSampleIdx(i, nObls) {
		return
	}
	for _, f := range files {
		os.Remove(f)
		os.Remove(f + ".qf")
	}
}
