package main

// Package-level tables that are filled by init#k functions (loops, append) are not executed symbolically.
// Their contents are taken from the real program instead: an in-package test injected with -overlay runs
// after the real init and dumps them; the dump becomes assumptions about the base heap (A-INIT). The
// global-write scan shows that nothing outside init writes them afterwards.

import (
	"bytes"
	"context"
	"encoding/json"
	"fmt"
	"go/types"
	"os"
	"os/exec"
	"path/filepath"
	"sort"
	"strings"
	"time"

	"golang.org/x/tools/go/ssa"
)

func (w *World) tableGlobals() []string {
	var out []string
	seen := map[string]bool{}
	for _, m := range w.SPkg.Members {
		f, ok := m.(*ssa.Function)
		if !ok || !strings.HasPrefix(f.Name(), "init#") {
			continue
		}
		for _, b := range f.Blocks {
			for _, in := range b.Instrs {
				s, ok := in.(*ssa.Store)
				if !ok {
					continue
				}
				v := s.Addr
				for {
					switch a := v.(type) {
					case *ssa.FieldAddr:
						v = a.X
						continue
					case *ssa.IndexAddr:
						v = a.X
						continue
					}
					break
				}
				if g, ok := v.(*ssa.Global); ok && !seen[g.Name()] && g.Name() != "BuildTags" {
					seen[g.Name()] = true
					out = append(out, g.Name())
				}
			}
		}
	}
	sort.Strings(out)
	return out
}

func (w *World) dumpTables() error {
	names := w.tableGlobals()
	if len(names) == 0 {
		return nil
	}
	var sb strings.Builder
	sb.WriteString("//go:build verif\n\npackage " + w.Pkg.Name() + "\n\nimport (\n\t\"encoding/json\"\n\t\"os\"\n\t\"reflect\"\n\t\"testing\"\n)\n\n")
	sb.WriteString(`func vcDumpVal(v reflect.Value) interface{} {
	switch v.Kind() {
	case reflect.Bool:
		return v.Bool()
	case reflect.Int, reflect.Int8, reflect.Int16, reflect.Int32, reflect.Int64:
		return v.Int()
	case reflect.Uint, reflect.Uint8, reflect.Uint16, reflect.Uint32, reflect.Uint64, reflect.Uintptr:
		return v.Uint()
	case reflect.String:
		return map[string]interface{}{"str": v.String()}
	case reflect.Slice:
		var el []interface{}
		for i := 0; i < v.Len(); i++ {
			el = append(el, vcDumpVal(v.Index(i)))
		}
		return map[string]interface{}{"len": v.Len(), "cap": v.Cap(), "nil": v.IsNil(), "elems": el}
	case reflect.Array:
		var el []interface{}
		for i := 0; i < v.Len(); i++ {
			el = append(el, vcDumpVal(v.Index(i)))
		}
		return el
	case reflect.Struct:
		var el []interface{}
		for i := 0; i < v.NumField(); i++ {
			el = append(el, vcDumpVal(v.Field(i)))
		}
		return el
	}
	return nil
}

func TestVerifDumpTables(t *testing.T) {
	out := map[string]interface{}{}
`)
	for _, n := range names {
		fmt.Fprintf(&sb, "\tout[%q] = vcDumpVal(reflect.ValueOf(&%s).Elem())\n", n, n)
	}
	sb.WriteString("\tb, _ := json.Marshal(out)\n\tos.WriteFile(os.Getenv(\"VC_DUMP_OUT\"), b, 0644)\n}\n")
	dir, err := os.MkdirTemp("", "govc-dump-")
	if err != nil {
		return err
	}
	defer os.RemoveAll(dir)
	tst := filepath.Join(dir, "zz_vc_dump_test.go")
	os.WriteFile(tst, []byte(sb.String()), 0644)
	ov := map[string]map[string]string{"Replace": {filepath.Join(w.RepoDir, "zz_vc_dump_test.go"): tst}}
	ovb, _ := json.Marshal(ov)
	ovf := filepath.Join(dir, "overlay.json")
	os.WriteFile(ovf, ovb, 0644)
	outf := filepath.Join(dir, "dump.json")
	ctx, cancel := context.WithTimeout(context.Background(), 180*time.Second)
	defer cancel()
	cmd := exec.CommandContext(ctx, "go", "test", "-tags", "verif", "-overlay", ovf, "-vet=off", "-count=1", "-timeout", "60s", "-run", "^TestVerifDumpTables$", ".")
	cmd.Dir = w.RepoDir
	cmd.Env = append(goEnv(), "VC_DUMP_OUT="+outf)
	var buf bytes.Buffer
	cmd.Stdout = &buf
	cmd.Stderr = &buf
	cmd.Run()
	b, err := os.ReadFile(outf)
	if err != nil {
		return fmt.Errorf("table dump did not run: %s", truncate(buf.String(), 600))
	}
	w.Tables = map[string]json.RawMessage{}
	return json.Unmarshal(b, &w.Tables)
}

// assumeDump installs the dumped contents of table global g as facts about the base heap.
func (x *Exec) assumeDump(g *ssa.Global, id int) {
	if x.dumpDone[g] {
		return
	}
	if x.dumpDone == nil {
		x.dumpDone = map[*ssa.Global]bool{}
	}
	x.dumpDone[g] = true
	raw, ok := x.W.Tables[g.Name()]
	if !ok {
		return
	}
	var v interface{}
	if err := json.Unmarshal(raw, &v); err != nil {
		return
	}
	t := g.Type().Underlying().(*types.Pointer).Elem()
	x.installDump(t, v, id, 0, 0)
}

func (x *Exec) factCell(blk int, off int, srt *Sort, val *Term) {
	if x.constMem == nil {
		x.constMem = map[[2]uint64]*Term{}
	}
	x.constMem[[2]uint64{uint64(blk), uint64(off)}] = val
	base := x.baseHeapOf(srt)
	x.assume(True(), Eq(Select(Select(base, BV(int64(blk), 32)), BV(int64(off), 64)), val))
}

func (x *Exec) installDump(t types.Type, v interface{}, blk, off, tag int) {
	switch u := t.Underlying().(type) {
	case *types.Basic:
		srt := cellsOf(t)[0]
		if isString(t) {
			m, _ := v.(map[string]interface{})
			s, _ := m["str"].(string)
			st := &State{G: True(), Loc: map[int][]*Term{}, Heap: map[*Sort]*Term{}}
			x.initMode = true
			sb := x.constBytes(st, s)
			x.initMode = false
			x.factCell(blk+tag, off, BV32, sb)
			x.factCell(blk+tag, off+1, BV64, BV(0, 64))
			x.factCell(blk+tag, off+2, BV64, BV(int64(len(s)), 64))
			return
		}
		switch n := v.(type) {
		case bool:
			x.factCell(blk+tag, off, srt, BoolC(n))
		case float64:
			if srt == BoolS {
				return
			}
			x.factCell(blk+tag, off, srt, BVU(uint64(int64(n)), srt.W))
		}
	case *types.Slice:
		m, _ := v.(map[string]interface{})
		if m == nil {
			return
		}
		ln := int(m["len"].(float64))
		cp := int(m["cap"].(float64))
		isNil, _ := m["nil"].(bool)
		nb := 0
		if !isNil {
			x.initMode = true
			nb = x.newBlk()
			x.initMode = false
		}
		x.factCell(blk+tag, off, BV32, BV(int64(nb), 32))
		x.factCell(blk+tag, off+1, BV64, BV(0, 64))
		x.factCell(blk+tag, off+2, BV64, BV(int64(ln), 64))
		x.factCell(blk+tag, off+3, BV64, BV(int64(cp), 64))
		el, _ := m["elems"].([]interface{})
		st := strideOf(u.Elem())
		for i, e := range el {
			x.installDump(u.Elem(), e, nb, i*st, 0)
		}
	case *types.Array:
		el, _ := v.([]interface{})
		st := strideOf(u.Elem())
		for i, e := range el {
			x.installDump(u.Elem(), e, blk, off+i*st, tag)
		}
	case *types.Struct:
		el, _ := v.([]interface{})
		for i := 0; i < u.NumFields() && i < len(el); i++ {
			ft := u.Field(i).Type()
			ftag := tag
			if ownBlock(ft) {
				ftag += fieldTag(t, i)
			}
			x.installDump(ft, el[i], blk, off+fieldMemOffset(u, i), ftag)
		}
	}
}
