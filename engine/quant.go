package main

// Quantifier elimination by skolemisation (goal side) and finite instantiation
// (hypothesis side). The result is quantifier-free and implies the original
// obligation, so `unsat` on it is a sound discharge; any other answer falls
// back to the quantified query.

import (
	"fmt"
	"os"
	"sort"
	"strings"
)

type qelim struct {
	skolems []*Term
	cands   []*Term
	candSet map[*Term]bool
	failed  bool
	memo    map[[2]int]*Term
	selIdx  map[*Term][]*Term // array term -> indices it is selected at
	imemo   map[[3]int]*Term
}

func (q *qelim) addCand(t *Term) {
	if t == nil || q.candSet[t] {
		return
	}
	q.candSet[t] = true
	q.cands = append(q.cands, t)
}

// rangeOf extracts lo, hi from the body shape (=> (and (bvsle lo k) (bvslt k hi)) P)
func rangeOf(t *Term) (lo, hi *Term) {
	if len(t.BVs) != 1 {
		return nil, nil
	}
	k := t.BVs[0]
	b := t.Args[0]
	var rng *Term
	if t.Op == "forall" && b.Op == "=>" {
		rng = b.Args[0]
	} else if t.Op == "exists" && b.Op == "and" {
		rng = b
	}
	if rng == nil {
		return nil, nil
	}
	for _, c := range conjuncts(rng) {
		if c.Op == "bvsle" && c.Args[1] == k {
			lo = c.Args[0]
		}
		if c.Op == "bvslt" && c.Args[0] == k {
			hi = c.Args[1]
		}
	}
	return
}

func containsVar(t *Term, vs []*Term, memo map[*Term]bool) bool {
	if v, ok := memo[t]; ok {
		return v
	}
	r := false
	for _, v := range vs {
		if t == v {
			r = true
		}
	}
	if !r {
		for _, a := range t.Args {
			if containsVar(a, vs, memo) {
				r = true
				break
			}
		}
	}
	memo[t] = r
	return r
}

// pass 1: skolemise goal-like quantifiers. pos = the formula is in a position where it must be PROVED
// (goal positive / hypothesis negative).
func (q *qelim) skolemise(t *Term, prove bool) *Term {
	if !hasQuant(t) {
		return t
	}
	key := [2]int{t.id, 0}
	if prove {
		key[1] = 1
	}
	if r, ok := q.memo[key]; ok {
		return r
	}
	var r *Term
	switch t.Op {
	case "not":
		r = Not(q.skolemise(t.Args[0], !prove))
	case "and":
		as := make([]*Term, len(t.Args))
		for i, a := range t.Args {
			as[i] = q.skolemise(a, prove)
		}
		r = And(as...)
	case "or":
		as := make([]*Term, len(t.Args))
		for i, a := range t.Args {
			as[i] = q.skolemise(a, prove)
		}
		r = Or(as...)
	case "=>":
		r = Implies(q.skolemise(t.Args[0], !prove), q.skolemise(t.Args[1], prove))
	case "ite":
		if hasQuant(t.Args[0]) {
			if t.S != BoolS {
				if os.Getenv("GOVC_DEBUG") != "" {
					fmt.Fprintf(os.Stderr, "qelim: non-boolean ite with a quantified condition: %.300s\n", t.String())
				}
				q.failed = true
				return t
			}
			// boolean ite with a quantified condition: (c => a) and (not c => b)
			r = And(Implies(q.skolemise(t.Args[0], !prove), q.skolemise(t.Args[1], prove)),
				Implies(Not(q.skolemise(t.Args[0], prove)), q.skolemise(t.Args[2], prove)))
			break
		}
		r = Ite(t.Args[0], q.skolemise(t.Args[1], prove), q.skolemise(t.Args[2], prove))
	case "=":
		// boolean equivalence with quantifiers inside: split into two implications
		a, b := t.Args[0], t.Args[1]
		if a.S != BoolS {
			if os.Getenv("GOVC_DEBUG") != "" {
				fmt.Fprintf(os.Stderr, "qelim: non-boolean equality over a quantifier: %.300s\n", t.String())
			}
			q.failed = true
			return t
		}
		r = And(Implies(q.skolemise(a, !prove), q.skolemise(b, prove)), Implies(q.skolemise(b, !prove), q.skolemise(a, prove)))
	case "forall", "exists":
		lo, hi := rangeOf(t)
		goalLike := (t.Op == "forall") == prove
		if goalLike {
			m := map[*Term]*Term{}
			for bi, bv := range t.BVs {
				sk := skolemCache[[2]int{t.id, bi}]
				if sk == nil {
					sk = Fresh("sk!"+bv.Name, bv.S)
					skolemCache[[2]int{t.id, bi}] = sk
				}
				m[bv] = sk
				q.skolems = append(q.skolems, sk)
				q.addCand(sk)
			}
			body := substBound(t.Args[0], m, map[*Term]*Term{})
			r = q.skolemise(body, prove)
		} else {
			// keep for pass 2, but process the body (it may contain goal-like quantifiers: not supported nested)
			r = t
		}
		if lo != nil && !hasBoundVar(lo) {
			q.addCand(lo)
		}
		if hi != nil && !hasBoundVar(hi) {
			q.addCand(BVSub(hi, BV(1, hi.S.W)))
		}
	default:
		if os.Getenv("GOVC_DEBUG") != "" {
			fmt.Fprintf(os.Stderr, "qelim: unsupported %s (sort %v) around a quantifier\n", t.Op, t.S)
		}
		q.failed = true
		return t
	}
	q.memo[key] = r
	return r
}

var boundMemo = map[*Term]bool{}

// instCache: body of a one-variable quantifier instantiated at a candidate (terms are hash-consed, so the
// result only depends on the two ids)
var instCache = map[[2]int]*Term{}

// skolemCache: one skolem constant per (quantifier term, bound variable): the same formula gets the same witness
var skolemCache = map[[2]int]*Term{}

// substBound is Subst restricted to subterms that mention a bound variable at all
func substBound(t *Term, m map[*Term]*Term, memo map[*Term]*Term) *Term {
	if r, ok := m[t]; ok {
		return r
	}
	if len(t.Args) == 0 || !hasBoundVar(t) {
		return t
	}
	if r, ok := memo[t]; ok {
		return r
	}
	na := make([]*Term, len(t.Args))
	ch := false
	for i, a := range t.Args {
		na[i] = substBound(a, m, memo)
		if na[i] != a {
			ch = true
		}
	}
	r := t
	if ch {
		r = rebuild(t, na)
	}
	memo[t] = r
	return r
}

func instAt(q *Term, c *Term) *Term {
	key := [2]int{q.id, c.id}
	if r, ok := instCache[key]; ok {
		return r
	}
	r := substBound(q.Args[0], map[*Term]*Term{q.BVs[0]: c}, map[*Term]*Term{})
	instCache[key] = r
	return r
}

// hasBoundVar: does the term mention a variable that is bound by some quantifier (named k!n / o!n / sk are free)
func hasBoundVar(t *Term) bool {
	if v, ok := boundMemo[t]; ok {
		return v
	}
	r := false
	if t.Op == "var" && (len(t.Name) > 2 && (t.Name[:2] == "k!" || t.Name[:2] == "o!")) {
		r = true
	}
	for _, a := range t.Args {
		if hasBoundVar(a) {
			r = true
			break
		}
	}
	boundMemo[t] = r
	return r
}

func (q *qelim) collectSelects(t *Term, seen map[*Term]bool) {
	if seen[t] {
		return
	}
	seen[t] = true
	if t.Op == "select" && t.Args[0].S.Idx == BV64 && !hasBoundVar(t.Args[1]) {
		q.selIdx[t.Args[0]] = append(q.selIdx[t.Args[0]], t.Args[1])
	}
	for _, a := range t.Args {
		q.collectSelects(a, seen)
	}
}

// pass 2: instantiate hypothesis-like quantifiers.
func (q *qelim) instantiate(t *Term, prove bool, depth int) *Term {
	if !hasQuant(t) {
		return t
	}
	if q.imemo == nil {
		q.imemo = map[[3]int]*Term{}
	}
	key := [3]int{t.id, depth, 0}
	if prove {
		key[2] = 1
	}
	if r, ok := q.imemo[key]; ok {
		return r
	}
	r := q.instantiate1(t, prove, depth)
	q.imemo[key] = r
	return r
}

func (q *qelim) instantiate1(t *Term, prove bool, depth int) *Term {
	switch t.Op {
	case "not":
		return Not(q.instantiate(t.Args[0], !prove, depth))
	case "and":
		as := make([]*Term, len(t.Args))
		for i, a := range t.Args {
			as[i] = q.instantiate(a, prove, depth)
		}
		return And(as...)
	case "or":
		as := make([]*Term, len(t.Args))
		for i, a := range t.Args {
			as[i] = q.instantiate(a, prove, depth)
		}
		return Or(as...)
	case "=>":
		return Implies(q.instantiate(t.Args[0], !prove, depth), q.instantiate(t.Args[1], prove, depth))
	case "ite":
		if hasQuant(t.Args[0]) {
			if t.S != BoolS {
				q.failed = true
				return t
			}
			return And(Implies(q.instantiate(t.Args[0], !prove, depth), q.instantiate(t.Args[1], prove, depth)),
				Implies(Not(q.instantiate(t.Args[0], prove, depth)), q.instantiate(t.Args[2], prove, depth)))
		}
		return Ite(t.Args[0], q.instantiate(t.Args[1], prove, depth), q.instantiate(t.Args[2], prove, depth))
	case "forall", "exists":
		goalLike := (t.Op == "forall") == prove
		if goalLike || depth > 3 {
			if os.Getenv("GOVC_DEBUG") != "" {
				fmt.Fprintf(os.Stderr, "qelim: pass 2 meets a goal-like quantifier (%v) or depth %d\n", goalLike, depth)
			}
			q.failed = true
			return t
		}
		var cands []*Term
		if !(len(t.Args) > 1 && t.Args[1].Op == "select") {
			// witnesses of the goal side first, then this quantifier's own range ends
			cands = append(cands, q.skolems...)
			if lo, hi := rangeOf(t); lo != nil && hi != nil && !hasBoundVar(lo) && !hasBoundVar(hi) {
				cands = append(cands, lo, BVSub(hi, BV(1, hi.S.W)))
			}
		}
		cands = append(cands, q.matchCands(t)...)
		if len(t.Args) > 1 && t.Args[1].Op == "select" {
			// pattern (select A' o): instantiate at every index A' is read at
			seenC := map[*Term]bool{}
			for _, ix := range q.selIdx[t.Args[1].Args[0]] {
				if !seenC[ix] {
					seenC[ix] = true
					cands = append(cands, ix)
				}
			}
		} else {
			cands = append(cands, q.cands...)
		}
		{
			seenC := map[*Term]bool{}
			var uniq []*Term
			for _, c := range cands {
				if !seenC[c] {
					seenC[c] = true
					uniq = append(uniq, c)
				}
			}
			cands = uniq
			if len(cands) > 64 {
				// keep every skolem constant (a hypothesis guarded by its own skolemised condition needs it)
				keep := cands[:64:64]
				inKeep := map[*Term]bool{}
				for _, c := range keep {
					inKeep[c] = true
				}
				for _, c := range cands[64:] {
					if c.Op == "var" && strings.HasPrefix(c.Name, "sk!") && !inKeep[c] && len(keep) < 128 {
						keep = append(keep, c)
					}
				}
				cands = keep
			}
		}
		var parts []*Term
		for _, c := range cands {
			if c.S != t.BVs[0].S {
				continue
			}
			parts = append(parts, q.instantiate(instAt(t, c), prove, depth+1))
		}
		if t.Op == "forall" {
			return And(parts...)
		}
		return Or(parts...)
	}
	if os.Getenv("GOVC_DEBUG") != "" {
		fmt.Fprintf(os.Stderr, "qelim: pass 2 unsupported %s (sort %v)\n", t.Op, t.S)
	}
	q.failed = true
	return t
}

// qfVersion returns a quantifier-free strengthening of (assumptions, goal), or ok=false.
func qfVersion(assumptions []*Term, goal *Term) (as []*Term, g *Term, ok bool) {
	q := &qelim{candSet: map[*Term]bool{}, memo: map[[2]int]*Term{}, selIdx: map[*Term][]*Term{}}
	g = q.skolemise(goal, true)
	as = make([]*Term, len(assumptions))
	for i, a := range assumptions {
		as[i] = q.skolemise(a, false)
	}
	if q.failed {
		if os.Getenv("GOVC_DEBUG") != "" {
			fmt.Fprintf(os.Stderr, "qelim: pass 1 failed\n")
		}
		return nil, nil, false
	}
	// select indices, two rounds (instances introduce reads of older arrays)
	for round := 0; round < 3; round++ {
		q.selIdx = map[*Term][]*Term{}
		seen := map[*Term]bool{}
		q.collectSelects(g, seen)
		for _, a := range as {
			q.collectSelects(a, seen)
		}
		if round == 2 {
			break
		}
		// instantiate only the pattern (frame) axioms in the first rounds to expose more reads
		changed := false
		for i, a := range as {
			if a.Op == "forall" && len(a.Args) > 1 {
				continue
			}
			_ = i
		}
		if !changed {
			break
		}
	}
	sort.SliceStable(q.cands, func(i, j int) bool { return q.cands[i].id < q.cands[j].id })
	g2 := q.instantiate(g, true, 0)
	out := make([]*Term, 0, len(as))
	// frame axioms last, after the others have been instantiated (their instances read the arrays)
	var frames []*Term
	for _, a := range as {
		if a.Op == "forall" && len(a.Args) > 1 {
			frames = append(frames, a)
			continue
		}
		out = append(out, q.instantiate(a, false, 0))
	}
	if q.failed {
		return nil, nil, false
	}
	// frame axioms: iterate to a fixpoint of read indices (bounded)
	cur := append([]*Term{}, out...)
	cur = append(cur, g2)
	done := map[[2]int]bool{}
	for round := 0; round < 4; round++ {
		q.selIdx = map[*Term][]*Term{}
		seen := map[*Term]bool{}
		for _, a := range cur {
			q.collectSelects(a, seen)
		}
		added := false
		for _, f := range frames {
			arr := f.Args[1].Args[0]
			for _, ix := range q.selIdx[arr] {
				k := [2]int{f.id, ix.id}
				if done[k] {
					continue
				}
				done[k] = true
				inst := instAt(f, ix)
				out = append(out, inst)
				cur = append(cur, inst)
				added = true
			}
		}
		if !added {
			break
		}
	}
	if q.failed {
		return nil, nil, false
	}
	for _, a := range out {
		if hasQuant(a) {
			if os.Getenv("GOVC_DEBUG") != "" {
				fmt.Fprintf(os.Stderr, "qelim: a hypothesis keeps a quantifier: %.300s\n", a.String())
			}
			return nil, nil, false
		}
	}
	if hasQuant(g2) {
		if os.Getenv("GOVC_DEBUG") != "" {
			fmt.Fprintf(os.Stderr, "qelim: the goal keeps a quantifier\n")
		}
		return nil, nil, false
	}
	return out, g2, true
}

// addLeaf: is t a sum in which the bound variable k occurs exactly once as an addend? returns the rest of the sum.
func addLeaf(t, k *Term) (*Term, bool) {
	if t == k {
		return BV(0, t.S.W), true
	}
	if t.Op == "bvadd" && len(t.Args) == 2 {
		a, b := t.Args[0], t.Args[1]
		memo := map[*Term]bool{}
		ina, inb := containsVar(a, []*Term{k}, memo), containsVar(b, []*Term{k}, memo)
		if ina && !inb {
			if r, ok := addLeaf(a, k); ok {
				return BVAdd(r, b), true
			}
		}
		if inb && !ina {
			if r, ok := addLeaf(b, k); ok {
				return BVAdd(a, r), true
			}
		}
	}
	return nil, false
}

// matchCands: e-matching by hand for the array property fragment: for every read A[base + k] in the body
// and every ground read A[t] in the query, k := t - base.
func (q *qelim) matchCands(t *Term) []*Term {
	if len(t.BVs) != 1 {
		return nil
	}
	k := t.BVs[0]
	var out []*Term
	seen := map[*Term]bool{}
	memo := map[*Term]bool{}
	var walk func(u *Term)
	walk = func(u *Term) {
		if seen[u] {
			return
		}
		seen[u] = true
		if u.Op == "select" && u.Args[0].S.Idx == k.S && !containsVar(u.Args[0], []*Term{k}, memo) {
			if base, ok := addLeaf(u.Args[1], k); ok && !hasBoundVar(base) {
				for _, g := range q.selIdx[u.Args[0]] {
					out = append(out, BVSub(g, base))
				}
			}
		}
		for _, a := range u.Args {
			walk(a)
		}
	}
	walk(t.Args[0])
	return out
}
