package main

// Replaying a solver model against the real code: the model is turned into a
// concrete call (entry values, or an injected loop-head configuration), run in
// an in-package test injected with `go test -overlay`, and the contract's
// clauses are evaluated by executing the generated spec functions.

import (
	"bytes"
	"context"
	"encoding/json"
	"fmt"
	"go/types"
	"math/big"
	"os"
	"os/exec"
	"path/filepath"
	"regexp"
	"sort"
	"strings"
	"time"
)

var valRe = regexp.MustCompile(`\(\s*(\|[^|]*\||[^\s()]+)\s+(#x[0-9a-fA-F]+|#b[01]+|true|false)\s*\)`)

func parseModelValues(out string) map[string]string {
	m := map[string]string{}
	for _, mm := range valRe.FindAllStringSubmatch(out, -1) {
		n := strings.Trim(mm[1], "|")
		m[n] = mm[2]
	}
	return m
}

func modelInt(v string) *big.Int {
	r := new(big.Int)
	switch {
	case strings.HasPrefix(v, "#x"):
		r.SetString(v[2:], 16)
	case strings.HasPrefix(v, "#b"):
		r.SetString(v[2:], 2)
	case v == "true":
		r.SetInt64(1)
	}
	return r
}

func runZ3(text string, timeout time.Duration) string {
	ctx, cancel := context.WithTimeout(context.Background(), timeout)
	defer cancel()
	cmd := exec.CommandContext(ctx, "z3-new", "-smt2", "-in", fmt.Sprintf("-T:%d", int(timeout.Seconds())))
	cmd.Stdin = strings.NewReader(text)
	var buf bytes.Buffer
	cmd.Stdout = &buf
	cmd.Stderr = &buf
	cmd.Run()
	return buf.String()
}

type heapReq struct {
	key  string // result key
	sort *Sort
	blk  string // smt expr
	off  string
}

// getModel returns values for every scalar free variable of the obligation and for the requested heap cells.
func (o *Obligation) getModel(extra func(scalars map[string]string) []heapReq) (map[string]string, error) {
	as := append([]*Term{}, o.ex.Assumes[:o.NAssume]...)
	as = append(as, o.Extra...)
	as = append(as, o.Guard)
	fv := map[*Term]bool{}
	seen := map[*Term]bool{}
	for _, a := range as {
		freeVars(a, fv, seen)
	}
	freeVars(o.Goal, fv, seen)
	var names []string
	bound := map[string]bool{}
	var collectBound func(t *Term, s map[*Term]bool)
	collectBound = func(t *Term, s map[*Term]bool) {
		if s[t] {
			return
		}
		s[t] = true
		for _, b := range t.BVs {
			bound[b.Name] = true
		}
		for _, a := range t.Args {
			collectBound(a, s)
		}
	}
	cs := map[*Term]bool{}
	for _, a := range as {
		collectBound(a, cs)
	}
	collectBound(o.Goal, cs)
	for v := range fv {
		if v.S.K != SArr && !bound[v.Name] {
			names = append(names, smtName(v.Name))
		}
	}
	sort.Strings(names)
	if len(names) == 0 {
		names = []string{"true"}
	}
	base := SMTQuery(as, o.Goal, []string{"(set-logic ALL)", "(set-option :produce-models true)"}, nil)
	// prefer small inputs: bound every slice length first, relax if that is unsatisfiable
	var lens []string
	for _, n := range names {
		if strings.HasSuffix(strings.Trim(n, "|"), "#len") || strings.HasSuffix(strings.Trim(n, "|"), "#len@long") {
			lens = append(lens, n)
		}
	}
	var out string
	for _, bound := range []int{24, 200, 0} {
		extraA := ""
		if bound > 0 {
			if len(lens) == 0 {
				continue
			}
			for _, l := range lens {
				extraA += fmt.Sprintf("(assert (bvule %s #x%016x))\n", l, bound)
			}
		}
		out = runZ3(base+extraA+"(check-sat)\n(get-value ("+strings.Join(names, " ")+"))\n", 30*time.Second)
		if strings.HasPrefix(strings.TrimSpace(out), "sat") {
			base += extraA
			break
		}
	}
	if !strings.HasPrefix(strings.TrimSpace(out), "sat") {
		return nil, fmt.Errorf("model query did not return sat: %s", truncate(out, 300))
	}
	scal := parseModelValues(out)
	if extra == nil {
		return scal, nil
	}
	reqs := extra(scal)
	if len(reqs) == 0 {
		return scal, nil
	}
	// second run: pin the scalars, ask for heap cells
	var sb strings.Builder
	sb.WriteString(base)
	for _, n := range names {
		if v, ok := scal[strings.Trim(n, "|")]; ok {
			fmt.Fprintf(&sb, "(assert (= %s %s))\n", n, v)
		}
	}
	sb.WriteString("(check-sat)\n")
	declared := map[string]bool{}
	for _, l := range strings.Split(base, "\n") {
		if strings.HasPrefix(l, "(declare-const ") {
			f := strings.Fields(l)
			declared[f[1]] = true
		}
	}
	var pre strings.Builder
	var q []string
	for i, rq := range reqs {
		hn := "H0!" + strings.NewReplacer("(", "", ")", "", " ", "", "_", "").Replace(rq.sort.str)
		if !declared[hn] {
			fmt.Fprintf(&pre, "(declare-const %s %s)\n", hn, heapSort(rq.sort))
			declared[hn] = true
		}
		q = append(q, fmt.Sprintf("(select (select %s %s) %s)", hn, rq.blk, rq.off))
		_ = i
	}
	text := strings.Replace(sb.String(), "(set-option :produce-models true)\n", "(set-option :produce-models true)\n"+pre.String(), 1)
	// ask in chunks to keep lines short
	for i := 0; i < len(q); i += 200 {
		j := i + 200
		if j > len(q) {
			j = len(q)
		}
		text += "(get-value (" + strings.Join(q[i:j], " ") + "))\n"
	}
	out2 := runZ3(text, 60*time.Second)
	if !strings.HasPrefix(strings.TrimSpace(out2), "sat") {
		return scal, fmt.Errorf("heap query did not return sat: %s", truncate(out2, 300))
	}
	// values come back in order
	re := regexp.MustCompile(`\(\(select \(select [^\n]*?\)\s+(#x[0-9a-fA-F]+|#b[01]+|true|false)\)`)
	vals := re.FindAllStringSubmatch(out2, -1)
	if len(vals) != len(reqs) {
		// fall back to a looser scan: take the last token of every "(... value)" pair
		re2 := regexp.MustCompile(`(#x[0-9a-fA-F]+|#b[01]+|true|false)\)\s*(\)|\n|\()`)
		_ = re2
		return scal, fmt.Errorf("heap query returned %d values for %d requests", len(vals), len(reqs))
	}
	for i, rq := range reqs {
		scal[rq.key] = vals[i][1]
	}
	return scal, nil
}

func goLit(t types.Type, v *big.Int, qual types.Qualifier) string {
	b, ok := t.Underlying().(*types.Basic)
	if !ok {
		return "0"
	}
	if b.Info()&types.IsBoolean != 0 {
		if v.Sign() != 0 {
			return "true"
		}
		return "false"
	}
	w := cellsOf(t)[0].W
	x := new(big.Int).Set(v)
	if isSigned(t) && x.Bit(w-1) == 1 {
		x.Sub(x, new(big.Int).Lsh(big.NewInt(1), uint(w)))
	}
	ts := types.TypeString(t, qual)
	return fmt.Sprintf("%s(%s)", ts, x.String())
}

type replayPlan struct {
	setup    []string
	callArg  []string
	ok       bool
	why      string
	shortLen int    // law replays: length seen by the short run
	lawBuf   string // law replays: the growing buffer argument
}

// buildInputs writes Go statements creating the arguments from model values.
// prefixFor(param i) gives the model-name prefix of the scalar cells; heapKey(i, path) the key of a pointee cell.
func (r *Run) buildInputs(fi *FuncInfo, m map[string]string, scalarName func(i int, path string) string, heapKey func(i int, cell int) string) replayPlan {
	var p replayPlan
	p.ok = true
	qual := func(o *types.Package) string {
		if o.Path() == r.W.Pkg.Path() {
			return ""
		}
		return o.Name()
	}
	get := func(k string) *big.Int {
		if v, ok := m[k]; ok {
			return modelInt(v)
		}
		return new(big.Int)
	}
	for i, t := range fi.PTypes {
		an := "a_" + fi.PNames[i]
		switch u := t.Underlying().(type) {
		case *types.Basic:
			p.setup = append(p.setup, fmt.Sprintf("%s := %s", an, goLit(t, get(scalarName(i, "")), qual)))
		case *types.Slice:
			ln := get(scalarName(i, "#len")).Int64()
			if _, ok := m[fi.PNames[i]+"#len@long"]; ok {
				p.shortLen = int(ln)
				p.lawBuf = "a_" + fi.PNames[i]
				ln = get(fi.PNames[i] + "#len@long").Int64()
			}
			cp := get(scalarName(i, "#cap")).Int64()
			if ln < 0 || ln > 70000 {
				p.ok = false
				p.why = "model slice length out of replay range"
				return p
			}
			if cp < ln || cp > ln+64 {
				cp = ln
			}
			if bt, ok := u.Elem().Underlying().(*types.Basic); ok && bt.Kind() == types.Uint8 {
				var bs []string
				for k := int64(0); k < ln; k++ {
					bs = append(bs, fmt.Sprintf("%d", get(heapKey(i, int(k))).Int64()))
				}
				blk := get(scalarName(i, "#blk"))
				if blk.Sign() == 0 && ln == 0 {
					p.setup = append(p.setup, fmt.Sprintf("var %s %s", an, types.TypeString(t, qual)))
				} else {
					p.setup = append(p.setup, fmt.Sprintf("%s := append(make(%s, 0, %d), []byte{%s}...)", an, types.TypeString(t, qual), cp, strings.Join(bs, ",")))
				}
			} else {
				p.setup = append(p.setup, fmt.Sprintf("%s := make(%s, %d, %d)", an, types.TypeString(t, qual), ln, cp))
				// element cells
				es := sizeOf(u.Elem())
				var paths []string
				cellPaths(u.Elem(), "", &paths)
				ss := cellsOf(u.Elem())
				for e := 0; e < int(ln) && e < 64; e++ {
					for c := 0; c < es; c++ {
						if strings.Contains(paths[c], "#") {
							continue
						}
						v := get(heapKey(i, e*es+c))
						if v.Sign() != 0 {
							p.setup = append(p.setup, fmt.Sprintf("%s[%d]%s = %s", an, e, paths[c], goLit(leafType(u.Elem(), paths[c]), v, qual)))
						}
						_ = ss
					}
				}
			}
		case *types.Pointer:
			blk := get(scalarName(i, "#blk"))
			if blk.Sign() == 0 {
				p.setup = append(p.setup, fmt.Sprintf("var %s %s", an, types.TypeString(t, qual)))
				continue
			}
			p.setup = append(p.setup, fmt.Sprintf("%s := new(%s)", an, types.TypeString(u.Elem(), qual)))
			var paths []string
			cellPaths(u.Elem(), "", &paths)
			for c, path := range paths {
				if strings.Contains(path, "#") {
					// nested slices: allocate by length where we can
					if strings.HasSuffix(path, "#len") {
						base := strings.TrimSuffix(path, "#len")
						ln := get(heapKey(i, c)).Int64()
						cp := get(heapKey(i, c+1)).Int64()
						if ln >= 0 && ln <= 4096 {
							if cp < ln || cp > ln+64 {
								cp = ln
							}
							lt := leafType(u.Elem(), base)
							if _, ok := lt.Underlying().(*types.Slice); ok && (ln > 0 || cp > 0) {
								p.setup = append(p.setup, fmt.Sprintf("(*%s)%s = make(%s, %d, %d)", an, base, types.TypeString(lt, qual), ln, cp))
							}
						}
					}
					continue
				}
				v := get(heapKey(i, c))
				if v.Sign() != 0 {
					p.setup = append(p.setup, fmt.Sprintf("(*%s)%s = %s", an, path, goLit(leafType(u.Elem(), path), v, qual)))
				}
			}
		case *types.Struct:
			p.setup = append(p.setup, fmt.Sprintf("var %s %s", an, types.TypeString(t, qual)))
			var paths []string
			cellPaths(t, "", &paths)
			for _, path := range paths {
				if strings.Contains(path, "#") {
					continue
				}
				v := get(scalarName(i, path))
				if v.Sign() != 0 {
					p.setup = append(p.setup, fmt.Sprintf("%s%s = %s", an, path, goLit(leafType(t, path), v, qual)))
				}
			}
			_ = u
		case *types.Interface:
			impls := r.W.ifaceImpls(t)
			typ := get(scalarName(i, "#typ"))
			if len(impls) == 1 && typ.Sign() != 0 {
				pt := impls[0].(*types.Pointer)
				p.setup = append(p.setup, fmt.Sprintf("var %s %s = new(%s)", an, types.TypeString(t, qual), types.TypeString(pt.Elem(), qual)))
			} else {
				p.setup = append(p.setup, fmt.Sprintf("var %s %s", an, types.TypeString(t, qual)))
			}
		default:
			p.ok = false
			p.why = fmt.Sprintf("parameter %s of type %v cannot be reconstructed", fi.PNames[i], t)
			return p
		}
		p.callArg = append(p.callArg, an)
	}
	return p
}

// leafType resolves a cell path like ".CSeq.Offs" or "[3].Name" inside t.
func leafType(t types.Type, path string) types.Type {
	for path != "" {
		switch {
		case path[0] == '.':
			j := 1
			for j < len(path) && path[j] != '.' && path[j] != '[' && path[j] != '#' {
				j++
			}
			name := path[1:j]
			st := t.Underlying().(*types.Struct)
			found := false
			for i := 0; i < st.NumFields(); i++ {
				if st.Field(i).Name() == name {
					t = st.Field(i).Type()
					found = true
					break
				}
			}
			if !found {
				return t
			}
			path = path[j:]
		case path[0] == '[':
			j := strings.Index(path, "]")
			t = t.Underlying().(*types.Array).Elem()
			path = path[j+1:]
		default:
			return t
		}
	}
	return t
}

func (r *Run) tryReplay(v *Result, rf *ReplayFile) {
	defer func() {
		if p := recover(); p != nil {
			rf.Note += fmt.Sprintf("replay construction failed (%v); ", p)
		}
	}()
	fi := r.W.Funcs[v.O.Func]
	if fi == nil {
		rf.Note = "no function info"
		return
	}
	// which heap cells do we need: pointees of pointer params and bytes of byte slices
	extra := func(sc map[string]string) []heapReq {
		var reqs []heapReq
		for i, t := range fi.PTypes {
			n := fi.PNames[i]
			blk := smtName("blk!" + n)
			off := smtName(n + "#off")
			switch u := t.Underlying().(type) {
			case *types.Slice:
				if al := strideOf(u.Elem()); al > 1 {
					off = fmt.Sprintf("(concat ((_ extract 63 %d) %s) #b%0*d)", log2(al), off, log2(al), 0)
				}
			case *types.Pointer:
				if al := alignOf(u.Elem()); al > 1 {
					off = fmt.Sprintf("(concat ((_ extract 63 %d) %s) #b%0*d)", log2(al), off, log2(al), 0)
				}
			}
			if _, ok := sc["blk!"+n]; !ok {
				continue
			}
			switch u := t.Underlying().(type) {
			case *types.Slice:
				ln := modelInt(sc[n+"#len"]).Int64()
				if l2, ok := sc[n+"#len@long"]; ok {
					ln = modelInt(l2).Int64()
				}
				if ln < 0 || ln > 70000 {
					continue
				}
				ss := cellsOf(u.Elem())
				mo := memOffsOf(u.Elem())
				stride := strideOf(u.Elem())
				tot := int(ln) * len(ss)
				if len(ss) > 1 && ln > 64 {
					tot = 64 * len(ss)
				}
				for k := 0; k < tot; k++ {
					addr := (k/len(ss))*stride + mo[k%len(ss)]
					mt := memTagsOf(u.Elem())
					reqs = append(reqs, heapReq{key: fmt.Sprintf("heap:%d:%d", i, k), sort: ss[k%len(ss)], blk: fmt.Sprintf("(bvadd %s #x%08x)", blk, mt[k%len(ss)]), off: fmt.Sprintf("(bvadd %s #x%016x)", off, addr)})
				}
			case *types.Pointer:
				ss := cellsOf(u.Elem())
				mo := memOffsOf(u.Elem())
				mt := memTagsOf(u.Elem())
				for k := range ss {
					reqs = append(reqs, heapReq{key: fmt.Sprintf("heap:%d:%d", i, k), sort: ss[k], blk: fmt.Sprintf("(bvadd %s #x%08x)", blk, mt[k]), off: fmt.Sprintf("(bvadd %s #x%016x)", off, mo[k])})
				}
			}
		}
		return reqs
	}
	m, err := v.O.getModel(extra)
	if m != nil {
		rf.Model = map[string]string{}
		for k, val := range m {
			if !strings.HasPrefix(k, "heap:") || len(rf.Model) < 400 {
				rf.Model[k] = val
			}
		}
	}
	if err != nil {
		rf.Note = "model extraction failed: " + err.Error()
		return
	}
	type attempt struct {
		name string
		plan replayPlan
	}
	var atts []attempt
	// attempt 1: entry values
	atts = append(atts, attempt{"entry", r.buildInputs(fi, m,
		func(i int, path string) string {
			if path == "#blk" {
				return "blk!" + fi.PNames[i]
			}
			return fi.PNames[i] + path
		},
		func(i int, c int) string { return fmt.Sprintf("heap:%d:%d", i, c) })})
	// attempt 2: injected loop-head configuration (resumable parsers keep all state in the object)
	if lp := loopPrefix(m); lp != "" {
		atts = append(atts, attempt{"loop-head-injection", r.loopHeadInputs(fi, m, lp)})
	}
	for _, a := range atts {
		if !a.plan.ok {
			rf.Note += a.name + ": " + a.plan.why + "; "
			continue
		}
		src := r.replaySource(fi, a.plan)
		if v.O.Kind == "law" {
			if a.plan.lawBuf == "" {
				rf.Note += a.name + ": no growing buffer in the model; "
				continue
			}
			src = r.replaySourceLaw(fi, a.plan)
		}
		out, rerr := r.runReplay(src)
		rf.TestSource = src
		rf.SpecSource = r.W.GenSrc
		rf.TestOutput = truncate(out, 6000)
		if rerr != nil {
			rf.Note += a.name + ": replay did not run: " + rerr.Error() + "; "
			continue
		}
		if strings.Contains(out, "REPRODUCED") {
			rf.Reproduced = true
			rf.Note += a.name + ": the real code violates the contract on the model's input; "
			return
		}
		rf.Note += a.name + ": real code did not misbehave on this input (" + firstLine(out, "REPLAY") + "); "
	}
}

func firstLine(out, key string) string {
	for _, l := range strings.Split(out, "\n") {
		if strings.Contains(l, key) {
			return strings.TrimSpace(l)
		}
	}
	return ""
}

var loopVarRe = regexp.MustCompile(`^L([0-9]+)\.`)

func loopPrefix(m map[string]string) string {
	best := ""
	for k := range m {
		if mm := loopVarRe.FindStringSubmatch(k); mm != nil {
			if best == "" || mm[1] < best {
				best = mm[1]
			}
		}
	}
	if best == "" {
		return ""
	}
	return "L" + best + "."
}

// loop-head injection: offs := the loop index, objects := the loop-head cells of the modifies regions
func (r *Run) loopHeadInputs(fi *FuncInfo, m map[string]string, lp string) replayPlan {
	find := func(prefix string) (string, bool) {
		for k := range m {
			if strings.HasPrefix(k, prefix) {
				rest := k[len(prefix):]
				if rest == "" || rest[0] == '!' {
					return k, true
				}
			}
		}
		return "", false
	}
	// which modifies region belongs to which pointer parameter: by order of pointer params named in the modifies clause
	regOf := map[int]int{}
	ri := 0
	for _, c := range fi.C.Modifies {
		for _, it := range splitTop(c.Text, ",") {
			it = strings.TrimSpace(it)
			ri++
			if strings.HasPrefix(it, "*") {
				for i, n := range fi.PNames {
					if n == it[1:] {
						regOf[i] = ri
					}
				}
			}
		}
	}
	return r.buildInputs(fi, m,
		func(i int, path string) string {
			n := fi.PNames[i]
			if path == "" {
				// the loop index stands for the offset parameter
				if n == "offs" {
					if k, ok := find(lp + "i"); ok {
						return k
					}
					if k, ok := find(lp + "offs"); ok {
						return k
					}
				}
				if k, ok := find(lp + n); ok {
					return k
				}
				return n
			}
			if path == "#blk" {
				return "blk!" + n
			}
			return n + path
		},
		func(i int, c int) string {
			if rg, ok := regOf[i]; ok {
				pt := fi.PTypes[i].Underlying().(*types.Pointer)
				var paths []string
				cellPaths(pt.Elem(), "", &paths)
				if k, ok := find(fmt.Sprintf("%sm%d%s", lp, rg, paths[c])); ok {
					return k
				}
			}
			return fmt.Sprintf("heap:%d:%d", i, c)
		})
}

func (r *Run) replaySource(fi *FuncInfo, p replayPlan) string {
	var sb strings.Builder
	sb.WriteString("//go:build verif\n\npackage " + r.W.Pkg.Name() + "\n\nimport (\n\t\"fmt\"\n\t\"testing\"\n\t\"time\"\n)\n\n")
	sb.WriteString("func TestVerifReplay(t *testing.T) {\n")
	for _, s := range p.setup {
		sb.WriteString("\t" + s + "\n")
	}
	for _, a := range p.callArg {
		sb.WriteString("\t_ = " + a + "\n")
	}
	qual := func(o *types.Package) string {
		if o.Path() == r.W.Pkg.Path() {
			return ""
		}
		return o.Name()
	}
	// requires
	genCall := func(g *GenFunc) string {
		var as []string
		for _, a := range g.Args {
			switch a.Kind {
			case "param", "entry", "local-param":
				as = append(as, "a_"+a.Name)
			case "old":
				as = append(as, "old_"+a.Name)
			case "result":
				as = append(as, "r_"+a.Name)
			default:
				return ""
			}
		}
		return g.Name + "(" + strings.Join(as, ", ") + ")"
	}
	sb.WriteString("\tpre := true\n")
	for k, g := range fi.Req {
		if c := genCall(g); c != "" {
			fmt.Fprintf(&sb, "\tfunc() { defer func() { if recover() != nil { pre = false } }(); if !%s { pre = false; fmt.Println(\"REPLAY requires%d false\") } }()\n", c, k+1)
		}
	}
	sb.WriteString("\tif !pre { fmt.Println(\"REPLAY precondition not met by the reconstructed input\"); return }\n")
	// olds
	for i, t := range fi.PTypes {
		if pt, ok := t.Underlying().(*types.Pointer); ok {
			fmt.Fprintf(&sb, "\tvar old_%s %s\n\tif a_%s != nil { old_%s = *a_%s }\n\t_ = old_%s\n", fi.PNames[i], types.TypeString(pt.Elem(), qual), fi.PNames[i], fi.PNames[i], fi.PNames[i], fi.PNames[i])
		}
	}
	for i, t := range fi.RTypes {
		fmt.Fprintf(&sb, "\tvar r_%s %s\n\t_ = r_%s\n", fi.RNames[i], types.TypeString(t, qual), fi.RNames[i])
	}
	var lhs []string
	for _, n := range fi.RNames {
		lhs = append(lhs, "r_"+n)
	}
	call := ""
	key := fi.Key
	args := p.callArg
	if mm := methKeyRe.FindStringSubmatch(key); mm != nil {
		call = fmt.Sprintf("%s.%s(%s)", args[0], mm[3], strings.Join(args[1:], ", "))
		if mm[1] == "" {
			call = fmt.Sprintf("(%s).%s(%s)", args[0], mm[3], strings.Join(args[1:], ", "))
		}
	} else {
		call = fmt.Sprintf("%s(%s)", key, strings.Join(args, ", "))
	}
	if len(lhs) > 0 {
		call = strings.Join(lhs, ", ") + " = " + call
	}
	sb.WriteString("\tdone := make(chan interface{}, 1)\n")
	sb.WriteString("\tgo func() { defer func() { done <- recover() }(); " + call + " }()\n")
	sb.WriteString("\tselect {\n\tcase p := <-done:\n\t\tif p != nil { fmt.Println(\"REPRODUCED panic:\", p); return }\n\tcase <-time.After(5 * time.Second):\n\t\tfmt.Println(\"REPRODUCED no return within 5s\"); return\n\t}\n")
	for k, g := range fi.Ens {
		if c := genCall(g); c != "" {
			fmt.Fprintf(&sb, "\tfunc() { defer func() { if p := recover(); p != nil { fmt.Println(\"REPRODUCED ensures%d: evaluating the postcondition panics:\", p) } }(); if !%s { fmt.Println(\"REPRODUCED ensures%d is false:\", %q) } }()\n", k+1, c, k+1, fi.C.Ensures[k].Text)
		}
	}
	fmt.Fprintf(&sb, "\tfmt.Println(\"REPLAY finished; results:\"")
	for _, n := range fi.RNames {
		fmt.Fprintf(&sb, ", r_%s", n)
	}
	sb.WriteString(")\n}\n")
	return sb.String()
}

func (r *Run) runReplay(src string) (string, error) {
	if strings.Contains(r.W.Funcs[r.firstKey()].Key, "$") {
		// closures cannot be called from a test
	}
	dir, err := os.MkdirTemp("", "govc-replay-")
	if err != nil {
		return "", err
	}
	defer os.RemoveAll(dir)
	gen := filepath.Join(dir, "zz_vc_generated.go")
	tst := filepath.Join(dir, "zz_vc_replay_test.go")
	os.WriteFile(gen, []byte(r.W.GenSrc), 0644)
	os.WriteFile(tst, []byte(src), 0644)
	ov := map[string]map[string]string{"Replace": {
		filepath.Join(r.W.RepoDir, "zz_vc_generated.go"):   gen,
		filepath.Join(r.W.RepoDir, "zz_vc_replay_test.go"): tst,
	}}
	ovb, _ := json.Marshal(ov)
	ovf := filepath.Join(dir, "overlay.json")
	os.WriteFile(ovf, ovb, 0644)
	ctx, cancel := context.WithTimeout(context.Background(), 120*time.Second)
	defer cancel()
	cmd := exec.CommandContext(ctx, "go", "test", "-tags", "verif", "-overlay", ovf, "-vet=off", "-count=1", "-timeout", "60s", "-run", "^TestVerifReplay$", "-v", ".")
	cmd.Dir = r.W.RepoDir
	cmd.Env = goEnv()
	var buf bytes.Buffer
	cmd.Stdout = &buf
	cmd.Stderr = &buf
	cmd.Run()
	out := buf.String()
	if !strings.Contains(out, "REPLAY") && !strings.Contains(out, "REPRODUCED") {
		return out, fmt.Errorf("test did not run to a verdict")
	}
	return out, nil
}

func (r *Run) firstKey() string {
	for k := range r.W.Funcs {
		return k
	}
	return ""
}

// replaySourceLaw: run the function twice from the same state, on the short and on the long prefix of the
// model's buffer; the EXT law is violated when the short run gives a verdict other than "more bytes" and the
// long run disagrees with it in any result or in the object it leaves behind.
func (r *Run) replaySourceLaw(fi *FuncInfo, p replayPlan) string {
	var sb strings.Builder
	sb.WriteString("//go:build verif\n\npackage " + r.W.Pkg.Name() + "\n\nimport (\n\t\"fmt\"\n\t\"reflect\"\n\t\"testing\"\n)\n\n")
	sb.WriteString("func TestVerifReplay(t *testing.T) {\n")
	for _, s := range p.setup {
		sb.WriteString("\t" + s + "\n")
	}
	qual := func(o *types.Package) string {
		if o.Path() == r.W.Pkg.Path() {
			return ""
		}
		return o.Name()
	}
	run := func(tag string, buf string) {
		var args []string
		for i, a := range p.callArg {
			if a == p.lawBuf {
				args = append(args, buf)
				continue
			}
			if pt, ok := fi.PTypes[i].Underlying().(*types.Pointer); ok {
				fmt.Fprintf(&sb, "\tvar %s_%s %s\n\tif %s != nil { %s_%s = new(%s); *%s_%s = *%s }\n", tag, a, types.TypeString(fi.PTypes[i], qual), a, tag, a, types.TypeString(pt.Elem(), qual), tag, a, a)
				args = append(args, tag+"_"+a)
				continue
			}
			args = append(args, a)
		}
		var lhs []string
		for k := range fi.RNames {
			lhs = append(lhs, fmt.Sprintf("%s_r%d", tag, k))
		}
		call := ""
		if mm := methKeyRe.FindStringSubmatch(fi.Key); mm != nil {
			call = fmt.Sprintf("%s.%s(%s)", args[0], mm[3], strings.Join(args[1:], ", "))
		} else {
			call = fmt.Sprintf("%s(%s)", fi.Key, strings.Join(args, ", "))
		}
		fmt.Fprintf(&sb, "\t%s := %s\n", strings.Join(lhs, ", "), call)
	}
	fmt.Fprintf(&sb, "\tshort := %s[:%d]\n", p.lawBuf, p.shortLen)
	sb.WriteString("\tdefer func() { if p := recover(); p != nil { fmt.Println(\"REPLAY panic:\", p) } }()\n")
	run("s", "short")
	run("l", p.lawBuf)
	vc := -1
	for k, t := range fi.RTypes {
		if nt, ok := t.(*types.Named); ok && nt.Obj().Name() == "ErrorHdr" {
			vc = k
		}
	}
	cond := "true"
	if vc >= 0 {
		cond = fmt.Sprintf("s_r%d != ErrHdrMoreBytes", vc)
	} else if len(fi.RNames) > 0 {
		cond = fmt.Sprintf("int(s_r0) < %d", p.shortLen)
	}
	fmt.Fprintf(&sb, "\tif %s {\n", cond)
	for k := range fi.RNames {
		fmt.Fprintf(&sb, "\t\tif !reflect.DeepEqual(s_r%d, l_r%d) { fmt.Println(\"REPRODUCED result %d differs between the short and the long buffer:\", s_r%d, l_r%d) }\n", k, k, k, k, k)
	}
	for i, a := range p.callArg {
		if _, ok := fi.PTypes[i].Underlying().(*types.Pointer); ok && a != p.lawBuf {
			fmt.Fprintf(&sb, "\t\tif s_%s != nil && !reflect.DeepEqual(*s_%s, *l_%s) { fmt.Printf(\"REPRODUCED object %s differs: short %%+v long %%+v\\n\", *s_%s, *l_%s) }\n", a, a, a, a, a, a)
		}
	}
	sb.WriteString("\t}\n")
	// RES: if the short run suspended, resume it on the long buffer (same object, returned offset) and compare
	// with the one-shot long run
	offsArg := ""
	for i, n := range fi.PNames {
		if n == "offs" || n == "o" {
			offsArg = p.callArg[i]
		}
	}
	if vc >= 0 && offsArg != "" && len(fi.RNames) > 0 {
		fmt.Fprintf(&sb, "\tif s_r%d == ErrHdrMoreBytes {\n", vc)
		var args []string
		for i, a := range p.callArg {
			switch {
			case a == p.lawBuf:
				args = append(args, p.lawBuf)
			case a == offsArg:
				args = append(args, "s_r0")
			default:
				if _, ok := fi.PTypes[i].Underlying().(*types.Pointer); ok {
					args = append(args, "s_"+a)
				} else {
					args = append(args, a)
				}
			}
		}
		var lhs []string
		for k := range fi.RNames {
			lhs = append(lhs, fmt.Sprintf("c_r%d", k))
		}
		call := fmt.Sprintf("%s(%s)", fi.Key, strings.Join(args, ", "))
		if mm := methKeyRe.FindStringSubmatch(fi.Key); mm != nil {
			call = fmt.Sprintf("%s.%s(%s)", args[0], mm[3], strings.Join(args[1:], ", "))
		}
		fmt.Fprintf(&sb, "\t\t%s := %s\n", strings.Join(lhs, ", "), call)
		for k := range fi.RNames {
			fmt.Fprintf(&sb, "\t\tif !reflect.DeepEqual(c_r%d, l_r%d) { fmt.Println(\"REPRODUCED resumed result %d differs from the one-shot result:\", c_r%d, l_r%d) }\n", k, k, k, k, k)
		}
		for i, a := range p.callArg {
			if _, ok := fi.PTypes[i].Underlying().(*types.Pointer); ok && a != p.lawBuf {
				fmt.Fprintf(&sb, "\t\tif s_%s != nil && !reflect.DeepEqual(*s_%s, *l_%s) { fmt.Printf(\"REPRODUCED resumed object %s differs: resumed %%+v one-shot %%+v\\n\", *s_%s, *l_%s) }\n", a, a, a, a, a, a)
			}
		}
		sb.WriteString("\t}\n")
	}
	sb.WriteString("\tfmt.Println(\"REPLAY finished; short run:\"")
	for k := range fi.RNames {
		fmt.Fprintf(&sb, ", s_r%d", k)
	}
	sb.WriteString(", \"long run:\"")
	for k := range fi.RNames {
		fmt.Fprintf(&sb, ", l_r%d", k)
	}
	sb.WriteString(")\n}\n")
	return sb.String()
}
